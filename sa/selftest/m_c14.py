"""Mutation operators for C14 (buffered readers)."""

from .mutants import M, M2

S = 'falcon/util/reader.py'
A = 'falcon/asgi/reader.py'

# ------------------------------------------------------------------ R1 cached length
M('c14-sync-fill-no-len-update', 'C14', 'R1', S,
  "            self._buffer_len = len(self._buffer)\n\n    def peek", "            pass\n\n    def peek")
M('c14-sync-read-until-eof-len-stale', 'C14', 'R1', S,
  "                # NOTE(vytas): We have reached the EOF.\n                self._buffer_len += next_chunk_len\n",
  "                # NOTE(vytas): We have reached the EOF.\n")
M('c14-sync-finalize-len-forgets-trim', 'C14', 'R1', S,
  "self._buffer_len = self._buffer_len - self._buffer_pos + next_chunk_len", "self._buffer_len = self._buffer_len + next_chunk_len")
M('c14-sync-read-whole-buffer-len-kept', 'C14', 'R1', S,
  "                result = self._buffer\n                self._buffer_len = 0\n", "                result = self._buffer\n")
M('c14-sync-wrong-chunk-len-argument', 'C14', 'R1', S,
  "                    next_chunk_len=next_chunk_len,\n", "                    next_chunk_len=self._chunk_size,\n")
M('c14-sync-splice-len-before-boundary-check', 'C14', 'R1', S,
  "                if delimiter_pos >= 0:\n                    self._buffer_len += next_chunk_len\n                    self._buffer += next_chunk\n",
  "                if delimiter_pos >= 0:\n                    self._buffer += next_chunk\n")
M('c14-async-trim-no-len', 'C14', 'R1', A,
  "        self._buffer = self._buffer[self._buffer_pos :]\n        self._buffer_len -= self._buffer_pos\n",
  "        self._buffer = self._buffer[self._buffer_pos :]\n")
M('c14-async-delimited-len-stale-at-yield', 'C14', 'R1', A,
  "                    self._buffer = chunk\n                    self._buffer_len = len(chunk)\n                    yield output\n",
  "                    self._buffer = chunk\n                    yield output\n                    self._buffer_len = len(chunk)\n")
M('c14-async-prepend-len-forgets-trim', 'C14', 'R1', A,
  "            self._buffer = chunk + self._buffer[self._buffer_pos :]\n            self._buffer_len = len(self._buffer)\n",
  "            self._buffer = chunk + self._buffer[self._buffer_pos :]\n            self._buffer_len += len(chunk)\n")
M('c14-async-peek-len-not-updated', 'C14', 'R1', A,
  "                self._buffer += chunk\n                self._buffer_len = len(self._buffer)\n                if self._buffer_len >= size:",
  "                self._buffer += chunk\n                if len(self._buffer) >= size:")

# ------------------------------------------------------------------ R2 budget (sync)
M('c14-sync-no-min-clamp', 'C14', 'R2', S,
  "        size = min(size, self._max_bytes_remaining)\n        if size <= 0:", "        if size <= 0:")
M('c14-sync-clamp-after-first-read', 'C14', 'R2', S,
  "        size = min(size, self._max_bytes_remaining)\n        if size <= 0:\n            return b''\n\n        chunk = self._read_func(size)\n",
  "        if size <= 0:\n            return b''\n\n        chunk = self._read_func(size)\n        size = min(size, self._max_bytes_remaining)\n")
M('c14-sync-refill-no-deduct', 'C14', 'R2', S,
  "            self._max_bytes_remaining -= chunk_len\n            result.write(chunk)\n", "            result.write(chunk)\n")
M('c14-sync-refill-size-not-reduced', 'C14', 'R2', S,
  "            size -= chunk_len\n            if size <= 0:\n                return result.getvalue()\n",
  "            if result.tell() >= size:\n                return result.getvalue()\n")
M('c14-sync-fill-bypasses-budget', 'C14', 'R2', S,
  "                self._buffer += self._perform_read(read_size)\n", "                self._buffer += self._read_func(read_size)\n")
M('c14-sync-first-read-not-deducted', 'C14', 'R2', S,
  "        chunk_len = len(chunk)\n        self._max_bytes_remaining -= chunk_len\n        if chunk_len == size:",
  "        chunk_len = len(chunk)\n        if chunk_len == size:")

# ------------------------------------------------------------------ R3 delimiter consumption
M('c14-sync-pipe-until-skip-peek', 'C14', 'R3', S,
  "            if self.peek(delimiter_len) != delimiter:\n                raise DelimiterError('expected delimiter missing')\n            self._buffer_pos += delimiter_len\n",
  "            self.peek(delimiter_len)\n            self._buffer_pos += delimiter_len\n")
M('c14-async-consume-skip-compare', 'C14', 'R3', A,
  "        if await self.peek(delimiter_len) != delimiter:\n            raise DelimiterError('expected delimiter missing')\n        self._buffer_pos += delimiter_len\n",
  "        await self.peek(delimiter_len)\n        self._buffer_pos += delimiter_len\n")
M('c14-sync-finalize-skip-position-check', 'C14', 'R3', S,
  "            elif self._buffer_pos != delimiter_pos:\n", "            elif False:\n")
M('c14-sync-finalize-peek-first-byte-only', 'C14', 'R3', S,
  "                if self.peek(consume_bytes) != delimiter:\n", "                if self.peek(1) != delimiter[:1]:\n")
M('c14-sync-finalize-check-only-when-found', 'C14', 'R3', S,
  "                if self.peek(consume_bytes) != delimiter:\n                    raise DelimiterError('expected delimiter missing')\n            elif",
  "                pass\n            elif")
M('c14-sync-empty-delimiter-allowed', 'C14', 'R3', S,
  "if not 0 <= delimiter_len_1 < self._chunk_size:", "if not -1 <= delimiter_len_1 < self._chunk_size:")
M('c14-async-overlong-delimiter-allowed', 'C14', 'R3', A,
  "if not 0 <= delimiter_len_1 < self._chunk_size:", "if not 0 <= delimiter_len_1 <= self._chunk_size:")
# wave 10 (s10-c14-2): a failed delimiter check consumes nothing -- the compared bytes are looked at (peek), not taken
_PIPE_TAIL = ("            delimiter_len = len(delimiter)\n            if self.peek(delimiter_len) != delimiter:\n"
              "                raise DelimiterError('expected delimiter missing')\n            self._buffer_pos += delimiter_len\n")
M('c14-sync-pipe-until-consume-by-read', 'C14', 'R3', S, _PIPE_TAIL,
  "            if self.read(len(delimiter)) != delimiter:\n                raise DelimiterError('expected delimiter missing')\n")
M('c14-sync-pipe-until-consume-by-private-read-through-temporary', 'C14', 'R3', S, _PIPE_TAIL,
  "            got = self._read(len(delimiter))\n            if not got == delimiter:\n                raise DelimiterError('expected delimiter missing')\n")
M('c14-async-consume-delimiter-by-read', 'C14', 'R3', A,
  "        if await self.peek(delimiter_len) != delimiter:\n            raise DelimiterError('expected delimiter missing')\n        self._buffer_pos += delimiter_len\n",
  "        if await self.read(delimiter_len) != delimiter:\n            raise DelimiterError('expected delimiter missing')\n")
M('c14-sync-finalize-compare-consumed-bytes', 'C14', 'R3', S,
  "                if self.peek(consume_bytes) != delimiter:\n                    raise DelimiterError('expected delimiter missing')\n            elif",
  "                if self._read(consume_bytes) != delimiter:\n                    raise DelimiterError('expected delimiter missing')\n                return ret_value\n            elif")
M('c14-sync-pipe-until-delimiter-check-inverted', 'C14', 'R3', S,
  "            if self.peek(delimiter_len) != delimiter:\n                raise DelimiterError('expected delimiter missing')\n            self._buffer_pos += delimiter_len\n",
  "            if self.peek(delimiter_len) == delimiter:\n                raise DelimiterError('expected delimiter missing')\n            self._buffer_pos += delimiter_len\n")

# ------------------------------------------------------------------ R4 tell / eof / consumed (async)
M('c14-async-consumed-misses-tail-chunk', 'C14', 'R4', A,
  "        if chunk:\n            self._consumed += len(chunk)\n            yield chunk\n", "        if chunk:\n            yield chunk\n")
M('c14-async-consumed-counts-next-item', 'C14', 'R4', A,
  "                self._consumed += chunk_len\n", "                self._consumed += len(item)\n")
M('c14-async-tell-ignores-cursor', 'C14', 'R4', A,
  "return self._consumed - (self._buffer_len - self._buffer_pos)", "return self._consumed - self._buffer_len")
M('c14-async-eof-ignores-buffer', 'C14', 'R4', A,
  "return self._exhausted and self._buffer_len == self._buffer_pos", "return self._exhausted")
M('c14-async-peek-counts-consumed', 'C14', 'R4', A,
  "                self._buffer += chunk\n                self._buffer_len = len(self._buffer)\n",
  "                self._buffer += chunk\n                self._consumed += len(chunk)\n                self._buffer_len = len(self._buffer)\n")

# ------------------------------------------------------------------ R5 size normalisation (sync)
M('c14-sync-normalize-drop-upper-bound', 'C14', 'R5', S,
  "if size is None or size == -1 or size > max_size:", "if size is None or size == -1:")
M('c14-sync-normalize-none-passes-through', 'C14', 'R5', S,
  "if size is None or size == -1 or size > max_size:", "if size == -1 or (size is not None and size > max_size):")
M('c14-sync-normalize-ignores-cursor', 'C14', 'R5', S,
  "max_size = self._max_bytes_remaining + self._buffer_len - self._buffer_pos", "max_size = self._max_bytes_remaining + self._buffer_len")
# repaired shape (`size < 0`): lapses on a tree that still has `size == -1`
M('c14-sync-fixed-normalize-only-minus-one', 'C14', 'R5', S,
  "if size is None or size < 0 or size > max_size:", "if size is None or size == -1 or size > max_size:")

# ------------------------------------------------------------------ R6 delimiter searches never look in front of the cursor
M('c14-sync-boundary-search-from-zero', 'C14', 'R6', S,          # seeded s-c14-1
  "offset = max(self._buffer_len - delimiter_len_1, self._buffer_pos)", "offset = max(self._buffer_len - delimiter_len_1, 0)")
M('c14-sync-boundary-search-no-max', 'C14', 'R6', S,
  "offset = max(self._buffer_len - delimiter_len_1, self._buffer_pos)", "offset = self._buffer_len - delimiter_len_1")
M('c14-sync-boundary-search-min', 'C14', 'R6', S,
  "offset = max(self._buffer_len - delimiter_len_1, self._buffer_pos)", "offset = min(self._buffer_len - delimiter_len_1, self._buffer_pos)")
M('c14-sync-search-from-buffer-start', 'C14', 'R6', S,
  "            if self._buffer_len > self._buffer_pos:\n                delimiter_pos = self._buffer.find(delimiter, self._buffer_pos)\n",
  "            if self._buffer_len > self._buffer_pos:\n                delimiter_pos = self._buffer.find(delimiter)\n")
M('c14-sync-finalize-search-from-buffer-start', 'C14', 'R6', S,
  "        if delimiter_pos < 0 and delimiter is not None:\n            delimiter_pos = self._buffer.find(delimiter, self._buffer_pos)\n",
  "        if delimiter_pos < 0 and delimiter is not None:\n            delimiter_pos = self._buffer.find(delimiter)\n")
M('c14-async-search-from-buffer-start', 'C14', 'R6', A,
  "pos = self._buffer.find(delimiter, self._buffer_pos)", "pos = self._buffer.find(delimiter)")
M('c14-async-no-trim-before-source-loop', 'C14', 'R6', A,
  "        if self._buffer_pos > 0:\n            self._trim_buffer()\n\n        async for chunk in self._source:\n            offset",
  "        async for chunk in self._source:\n            offset")

# ------------------------------------------------------------------ R7 size-capped hand-out keeps a delimiter tail (shared with C13 R5)
M('c14-async-capped-read-ignores-delimiter-tail', 'C14', 'R7', A,          # seeded s-c14-2 / s-c13-2
  "if 0 < size_hint < (self._buffer_len - self._buffer_pos - delimiter_len_1):", "if 0 < size_hint < self._buffer_len - self._buffer_pos:", also=['C13'])
M('c14-async-capped-read-tail-sign-flipped', 'C14', 'R7', A,
  "if 0 < size_hint < (self._buffer_len - self._buffer_pos - delimiter_len_1):", "if 0 < size_hint < (self._buffer_len - self._buffer_pos + delimiter_len_1):", also=['C13'])
M('c14-async-capped-read-tail-off-by-one', 'C14', 'R7', A,
  "if 0 < size_hint < (self._buffer_len - self._buffer_pos - delimiter_len_1):", "if 0 < size_hint <= (self._buffer_len - self._buffer_pos - delimiter_len_1 + 1):", also=['C13'])
M('c14-async-capped-read-advances-past-check', 'C14', 'R7', A,
  "                self._buffer_pos += size_hint\n                yield self._buffer[buffer_pos : self._buffer_pos]\n\n        if self._buffer_pos > 0:",
  "                self._buffer_pos += size_hint + delimiter_len_1\n                yield self._buffer[buffer_pos : self._buffer_pos]\n\n        if self._buffer_pos > 0:", also=['C13'])

# ------------------------------------------------------------------ R8 conservation of the cursor (async generators)
M('c14-async-eof-yield-without-cursor', 'C14', 'R8', A,          # the defect fixed by "mark the buffer consumed when an asgi read_until() hits end of stream"
  "        self._buffer_pos = self._buffer_len\n        yield self._buffer\n", "        yield self._buffer\n")
M('c14-async-iter-rest-without-cursor', 'C14', 'R8', A,
  "            self._buffer_pos = self._buffer_len\n            yield self._buffer[buffer_pos : self._buffer_len]\n",
  "            yield self._buffer[buffer_pos : self._buffer_len]\n")
M('c14-async-found-yield-without-cursor', 'C14', 'R8', A,
  "                self._buffer_pos = pos\n                yield self._buffer[buffer_pos:pos]\n", "                yield self._buffer[buffer_pos:pos]\n")
M('c14-async-boundary-yield-cursor-short', 'C14', 'R8', A,
  "self._buffer_pos = offset + pos\n", "self._buffer_pos = pos\n")
M('c14-async-cursor-advanced-after-yield', 'C14', 'R8', A,
  "                buffer_pos = self._buffer_pos\n                self._buffer_pos += size_hint\n                yield self._buffer[buffer_pos : self._buffer_pos]\n\n            buffer_pos = self._buffer_pos\n",
  "                buffer_pos = self._buffer_pos\n                yield self._buffer[buffer_pos : buffer_pos + size_hint]\n                self._buffer_pos += size_hint\n\n            buffer_pos = self._buffer_pos\n")
M('c14-async-in-loop-found-yield-without-cursor', 'C14', 'R8', A,
  "                    self._buffer_pos = pos\n                    yield self._buffer[:pos]\n", "                    yield self._buffer[:pos]\n")
M('c14-async-found-yield-start-saved-after-advance', 'C14', 'R8', A,
  "                buffer_pos = self._buffer_pos\n                self._buffer_pos = pos\n                yield self._buffer[buffer_pos:pos]\n",
  "                self._buffer_pos = pos\n                buffer_pos = self._buffer_pos\n                yield self._buffer[buffer_pos:pos]\n")

# ------------------------------------------------------------------ R7 (extension): a delimiter search with an end bound
# bytes.find(sub, start, end) needs the WHOLE match inside [start, end): a failed bounded search justifies a hand-out only
# up to end - (len(delimiter) - 1)
M('c14-async-search-capped-at-size-hint-conditional', 'C14', 'R7', A,          # seeded s2-c14-2
  "            pos = self._buffer.find(delimiter, self._buffer_pos)\n",
  "            end = self._buffer_pos + size_hint if size_hint > 0 else self._buffer_len\n"
  "            pos = self._buffer.find(delimiter, self._buffer_pos, end)\n", also=['C13'])
M('c14-async-search-capped-at-size-hint', 'C14', 'R7', A,
  "pos = self._buffer.find(delimiter, self._buffer_pos)", "pos = self._buffer.find(delimiter, self._buffer_pos, self._buffer_pos + size_hint)", also=['C13'])
M('c14-async-search-end-bound-off-by-one', 'C14', 'R7', A,
  "pos = self._buffer.find(delimiter, self._buffer_pos)",
  "pos = self._buffer.find(delimiter, self._buffer_pos, self._buffer_pos + size_hint + delimiter_len_1 - 1 if size_hint > 0 else self._buffer_len)", also=['C13'])
M('c14-async-search-excludes-buffer-tail', 'C14', 'R7', A,
  "pos = self._buffer.find(delimiter, self._buffer_pos)", "pos = self._buffer.find(delimiter, self._buffer_pos, self._buffer_len - delimiter_len_1)", also=['C13'])
M('c14-async-search-in-capped-slice', 'C14', 'R7', A,
  "            pos = self._buffer.find(delimiter, self._buffer_pos)\n",
  "            window = self._buffer[: self._buffer_pos + size_hint] if size_hint > 0 else self._buffer\n"
  "            pos = window.find(delimiter, self._buffer_pos)\n", also=['C13'])

# ------------------------------------------------------------------ R9 conservation of the cursor (sync reader)
M('c14-sync-finalize-install-chunk-stale-cursor', 'C14', 'R9', S,          # seeded s2-c14-1
  "            if self._buffer_len == 0:\n                self._buffer = next_chunk\n",
  "            if self._buffer_len <= self._buffer_pos:\n                self._buffer = next_chunk\n")
M('c14-sync-read-until-empty-buffer-cursor-kept', 'C14', 'R9', S,
  "                self._buffer_len = next_chunk_len\n                self._buffer_pos = 0\n                self._buffer = next_chunk\n                continue\n",
  "                self._buffer_len = next_chunk_len\n                self._buffer = next_chunk\n                continue\n")
M('c14-sync-read-until-next-chunk-cursor-kept', 'C14', 'R9', S,
  "                result.append(self._buffer)\n            self._buffer_len = next_chunk_len\n            self._buffer_pos = 0\n",
  "                result.append(self._buffer)\n            self._buffer_len = next_chunk_len\n")
M('c14-sync-read-refill-cursor-zero', 'C14', 'R9', S,          # (shape after the fix of F20, 96ab83d)
  "        self._buffer_pos = min(read_size, self._buffer_len)\n        return result + self._buffer[: self._buffer_pos]\n",
  "        self._buffer_pos = 0\n        return result + self._buffer[: min(read_size, self._buffer_len)]\n")
M('c14-sync-fill-trim-cursor-kept', 'C14', 'R9', S,
  "                    read_size\n                )\n                self._buffer_pos = 0\n", "                    read_size\n                )\n")
M('c14-sync-finalize-trim-cursor-kept', 'C14', 'R9', S,
  "                self._buffer_len = self._buffer_len - self._buffer_pos + next_chunk_len\n                self._buffer_pos = 0\n",
  "                self._buffer_len = self._buffer_len - self._buffer_pos + next_chunk_len\n")
M('c14-sync-backlog-gets-consumed-bytes-again', 'C14', 'R9', S,
  "                result.append(self._buffer[self._buffer_pos :])\n", "                result.append(self._buffer)\n")
M('c14-sync-big-read-drops-buffered-remainder', 'C14', 'R9', S,
  "            return result + self._perform_read(read_size)\n", "            return self._perform_read(read_size)\n")
M('c14-sync-backlog-misses-drained-buffer', 'C14', 'R9', S,
  "            else:\n                result.append(self._buffer)\n            self._buffer_len = next_chunk_len\n",
  "            self._buffer_len = next_chunk_len\n")

# ------------------------------------------------------------------ R10 sync read-until: "enough is buffered, stop refilling" keeps a delimiter tail (shared with C13 R6)
# after a failed search of the buffer a bounded read may hand out bytes only up to buffer end - (len(delimiter) - 1): the last
# len(delimiter) - 1 bytes may be the head of a delimiter that the next chunk completes
_EARLY = "            if size < (\n                have_bytes + self._buffer_len - self._buffer_pos - delimiter_len_1\n            ):\n"
M('c14-sync-early-exit-ignores-delimiter-tail', 'C14', 'R10', S,          # seeded s3-c13-2
  _EARLY, "            if size < have_bytes + self._buffer_len - self._buffer_pos:\n", also=['C13'])
M('c14-sync-early-exit-tail-sign-flipped', 'C14', 'R10', S,
  _EARLY, "            if size < (\n                have_bytes + self._buffer_len - self._buffer_pos + delimiter_len_1\n            ):\n", also=['C13'])
M('c14-sync-early-exit-tail-off-by-one', 'C14', 'R10', S,          # (`size < ... - delimiter_len_1 + 1` is still exact; `<=` hands out one byte too many)
  _EARLY, "            if size <= (\n                have_bytes + self._buffer_len - self._buffer_pos - delimiter_len_1 + 1\n            ):\n", also=['C13'])
M('c14-sync-early-exit-tail-on-wrong-term', 'C14', 'R10', S,          # the margin ends up added to the buffered amount
  _EARLY, "            if size < (\n                have_bytes + self._buffer_len - (self._buffer_pos - delimiter_len_1)\n            ):\n", also=['C13'])
M('c14-sync-early-exit-tail-on-wrong-side', 'C14', 'R10', S,
  _EARLY, "            if size - delimiter_len_1 < have_bytes + self._buffer_len - self._buffer_pos:\n", also=['C13'])
M('c14-sync-early-exit-tail-of-consumed-only', 'C14', 'R10', S,          # margin only when the delimiter is going to be consumed
  _EARLY, "            if size < (\n                have_bytes + self._buffer_len - self._buffer_pos - (delimiter_len_1 if consume_delimiter else 0)\n            ):\n", also=['C13'])

# ------------------------------------------------------------------ R11 minimum length of normalised source chunks (async; shared with C13 R9)
# the delimiter search of _iter_delimited looks ahead ONE chunk (`buffer tail + chunk[:len(delimiter) - 1]`): every chunk of the
# normalising iterator that is followed by another one must supply those bytes, i.e. be at least chunk_size - 1 long
_FLUSH = "            if chunk_len >= chunk_size:\n                self._consumed += chunk_len\n"
M('c14-async-normalized-short-leftover-flushed', 'C14', 'R11', A,          # seeded s5-c13-1
  _FLUSH, "            if chunk_len >= chunk_size or (chunk_len and len(item) >= chunk_size):\n                self._consumed += chunk_len\n", also=['C13'])
M('c14-async-normalized-flush-any-leftover', 'C14', 'R11', A,
  _FLUSH, "            if chunk_len:\n                self._consumed += chunk_len\n", also=['C13'])
M('c14-async-normalized-flush-at-half-chunk', 'C14', 'R11', A,
  _FLUSH, "            if chunk_len >= chunk_size // 2:\n                self._consumed += chunk_len\n", also=['C13'])
M('c14-async-normalized-flush-when-item-empty', 'C14', 'R11', A,          # "keep-alive" empty events flush what has been gathered
  _FLUSH, "            if chunk_len >= chunk_size or not item:\n                self._consumed += chunk_len\n", also=['C13'])
M('c14-async-lookahead-one-byte-short', 'C14', 'R11', A,
  "fragment = self._buffer[offset:] + chunk[:delimiter_len_1]", "fragment = self._buffer[offset:] + chunk[: delimiter_len_1 - 1]", also=['C13'])

# ------------------------------------------------------------------ R7 (extended): a coroutine of the asynchronous reader that serves a capped read
# straight from the buffer on the strength of a failed `find(delimiter, lo, hi)` must keep len(delimiter) - 1 bytes of margin (shared with C13 R5)
_ASYNC_READ_UNTIL = ("        result = await self._read_from(\n            self._iter_delimited(delimiter, size_hint=size or 0), size\n        )\n\n"
                     "        if consume_delimiter:\n            await self._consume_delimiter(delimiter)\n")


def _fast_path(cond):
    return ("        buffer_pos = self._buffer_pos\n        if (\n" + cond + "\n        ):\n            self._buffer_pos += size\n"
            "            result = self._buffer[buffer_pos : self._buffer_pos]\n        else:\n"
            "            result = await self._read_from(\n                self._iter_delimited(delimiter, size_hint=size or 0), size\n            )\n\n"
            "        if consume_delimiter:\n            await self._consume_delimiter(delimiter)\n")


M('c14-async-read-until-fast-path-end-bounded-find', 'C14', 'R7', A,          # seeded s5-c14-2
  _ASYNC_READ_UNTIL, _fast_path("            size\n            and 0 < size <= self._buffer_len - buffer_pos\n"
                                "            and self._buffer.find(delimiter, buffer_pos, buffer_pos + size) < 0"), also=['C13'])
M('c14-async-read-until-fast-path-margin-on-find-only', 'C14', 'R7', A,          # the window may still end at the end of the buffered data
  _ASYNC_READ_UNTIL, _fast_path("            size\n            and 0 < size <= self._buffer_len - buffer_pos\n"
                                "            and self._buffer.find(delimiter, buffer_pos, buffer_pos + size + len(delimiter) - 1) < 0"), also=['C13'])
M('c14-async-read-until-fast-path-margin-on-size-only', 'C14', 'R7', A,
  _ASYNC_READ_UNTIL, _fast_path("            size\n            and 0 < size <= self._buffer_len - buffer_pos - (len(delimiter) - 1)\n"
                                "            and self._buffer.find(delimiter, buffer_pos, buffer_pos + size) < 0"), also=['C13'])
M('c14-async-read-until-fast-path-only-when-consuming', 'C14', 'R7', A,          # the torn delimiter then fails the consume check
  _ASYNC_READ_UNTIL, _fast_path("            size\n            and consume_delimiter\n            and 0 < size <= self._buffer_len - buffer_pos\n"
                                "            and self._buffer.find(delimiter, buffer_pos, buffer_pos + size) < 0"), also=['C13'])

# ------------------------------------------------------------------ R12 size cap of the synchronous reader (per-method contracts)
_READLINE = ("        size = self._normalize_size(size)\n\n        result = self.read_until(b'\\n', size)\n        if len(result) < size:\n"
             "            return result + self.read(1)\n        return result\n")
M2('c14-sync-readline-through-include-delimiter', 'C14', 'R12', [          # seeded s5-c14-1
    {'file': S, 'old': "        self, delimiter: bytes, size: int = -1, consume_delimiter: bool = False\n    ) -> bytes:\n        # PERF(vytas): In Cython, bind types:\n"
                       "        #   cdef Py_ssize_t read_size\n        #   cdef result\n\n        read_size = self._normalize_size(size)\n",
     'new': "        self, delimiter: bytes, size: int = -1, consume_delimiter: bool = False, include_delimiter: bool = False\n    ) -> bytes:\n"
            "        read_size = self._normalize_size(size)\n        if include_delimiter:\n            data = self.read_until(delimiter, read_size)\n"
            "            if self.peek(len(delimiter)) == delimiter:\n                return data + self.read(len(delimiter))\n"
            "            if consume_delimiter:\n                raise DelimiterError('expected delimiter missing')\n            return data\n"},
    {'file': S, 'old': _READLINE, 'new': "        return self.read_until(b'\\n', size, include_delimiter=True)\n"}])
M('c14-sync-readline-newline-beyond-cap', 'C14', 'R12', S,
  "        if len(result) < size:\n            return result + self.read(1)\n", "        if len(result) <= size:\n            return result + self.read(1)\n")
M('c14-sync-readline-newline-whenever-next', 'C14', 'R12', S,
  "        if len(result) < size:\n            return result + self.read(1)\n", "        if self.peek(1) == b'\\n':\n            return result + self.read(1)\n")
M('c14-sync-readline-compares-raw-size', 'C14', 'R12', S,
  _READLINE, "        result = self.read_until(b'\\n', size)\n        if size < 0 or len(result) <= size:\n            return result + self.read(1)\n        return result\n")
M('c14-sync-read-ignores-size', 'C14', 'R12', S,
  "        return self._read(self._normalize_size(size))\n", "        return self._read(self._normalize_size(None))\n")
M('c14-sync-read-until-returns-byte-behind-cap', 'C14', 'R12', S,
  "            return self._read_until(delimiter, read_size, consume_delimiter)\n\n",
  "            return self._read_until(delimiter, read_size, consume_delimiter) + self.peek(1)\n\n")

# ------------------------------------------------------------------ R13 the cursor stays inside the buffer (finding F20, fixed in 96ab83d)
# a cursor stored after the buffer was replaced by freshly read data must be clamped to / guarded by what the source delivered
_CLAMPED = "        self._buffer_pos = min(read_size, self._buffer_len)\n        return result + self._buffer[: self._buffer_pos]\n"
M('c14-sync-read-refill-cursor-not-clamped', 'C14', 'R13', S,          # reverts the fix of F20
  _CLAMPED, "        self._buffer_pos = read_size\n        return result + self._buffer[:read_size]\n")
M('c14-sync-read-refill-cursor-clamped-to-chunk-size', 'C14', 'R13', S,          # what was asked for, not what was delivered
  _CLAMPED, "        self._buffer_pos = min(read_size, self._chunk_size)\n        return result + self._buffer[: self._buffer_pos]\n")
M('c14-sync-read-refill-cursor-set-before-length-known', 'C14', 'R13', S,
  _CLAMPED, "        self._buffer_pos = read_size\n        return result + self._buffer[: min(read_size, self._buffer_len)]\n")

# ----------------------------------------------------------------------- R14 the sub-reader runs with the parent's chunk size (seeded s7-c14-1)
_SUB = "        return type(self)(read, self._normalize_size(None), self._chunk_size)\n"
M('c14-delimit-drops-chunk-size', 'C14', 'R14', 'falcon/util/reader.py', _SUB,
  "        return type(self)(read, self._normalize_size(None))\n")
M('c14-delimit-default-chunk-size', 'C14', 'R14', 'falcon/util/reader.py', _SUB,
  "        return type(self)(read, self._normalize_size(None), DEFAULT_CHUNK_SIZE)\n")
M('c14-async-delimit-drops-chunk-size', 'C14', 'R14', 'falcon/asgi/reader.py',
  "return type(self)(self._iter_delimited(delimiter), chunk_size=self._chunk_size)",
  "return type(self)(self._iter_delimited(delimiter))")
M('c14-async-delimit-chunk-size-none', 'C14', 'R14', 'falcon/asgi/reader.py',
  "return type(self)(self._iter_delimited(delimiter), chunk_size=self._chunk_size)",
  "return type(self)(self._iter_delimited(delimiter), chunk_size=None)")
# negative controls verified by hand with --root (silent): `chunk_size=self._chunk_size` by keyword on the sync reader, positionally on
# the async one; `chunk = self._chunk_size; return BufferedReader(read, ..., chunk)`; `self.__class__(...)`; `cls = type(self); cls(...)`.
# `self._chunk_size * 2` is an unknown idiom (exit 2)

# ----------------------------------------------------------------------- R13 (asynchronous reader) a replaced buffer takes the cursor with it (seeded s8-c14-3)
_EXH = "    async def exhaust(self) -> None:\n        await self.pipe()\n"
M('c14-async-exhaust-drops-buffer-keeps-cursor', 'C14', 'R13', A, _EXH,
  "    async def exhaust(self) -> None:\n        self._buffer = b''\n        self._buffer_len = 0\n\n"
  "        async for _ in self._source:\n            pass\n")
M('c14-async-peek-trims-without-cursor-reset', 'C14', None, A,
  "        if self._buffer_pos > 0:\n            self._trim_buffer()\n\n        if self._buffer_len < size:\n",
  "        if self._buffer_pos > 0:\n            self._buffer = self._buffer[self._buffer_pos :]\n"
  "            self._buffer_len -= self._buffer_pos\n\n        if self._buffer_len < size:\n", also=('C13',))
M('c14-async-trim-buffer-keeps-cursor', 'C14', None, A,
  "        self._buffer_len -= self._buffer_pos\n        self._buffer_pos = 0\n", "        self._buffer_len -= self._buffer_pos\n", also=('C13',))
# negative controls verified by hand with --root (silent): exhaust() that also stores `self._buffer_pos = 0`; exhaust() as
# `self._buffer_pos = self._buffer_len` + draining the source

# ----------------------------------------------------------------------- R15 the declared length is the budget, 0 included (seeded s8-c14-2)
_BUD = "        self._max_bytes_remaining = max_stream_len\n"
M2('c14-sync-zero-length-means-unbounded', 'C14', 'R15', [
    {'file': S, 'old': "import io\n", 'new': "import io\nimport sys\n"},
    {'file': S, 'old': _BUD, 'new': "        self._max_bytes_remaining = max_stream_len or sys.maxsize\n"}])
M2('c14-sync-falsy-length-replaced', 'C14', 'R15', [
    {'file': S, 'old': "import io\n", 'new': "import io\nimport sys\n"},
    {'file': S, 'old': _BUD, 'new': "        if not max_stream_len:\n            max_stream_len = sys.maxsize\n" + _BUD}])
M('c14-sync-budget-one-more-than-declared', 'C14', 'R15', S, _BUD, "        self._max_bytes_remaining = max_stream_len + 1\n")
# negative controls verified by hand with --root (silent): `sys.maxsize if max_stream_len is None else max_stream_len`;
# `limit = max_stream_len` / `if limit is None: limit = sys.maxsize` / `max(limit, 0)`; `int(max_stream_len)`; a guard
# `if max_stream_len < 0: raise ValueError`

# =======================================================================================================================
# clauses added after the auto-mutation sweep (seeds sa-am005xx-007xx / sa-am031xx-034xx): first-order mutants
# =======================================================================================================================

# ----------------------------------------------------------------------- R2 the source gate: EOF is marked, the gate asks until served
_EOF1 = "        if chunk_len == 0:\n            # NOTE(vytas): The EOF.\n            self._max_bytes_remaining = 0\n            return b''\n"
_EOF2 = "            if chunk_len == 0:\n                # NOTE(vytas): The EOF.\n                self._max_bytes_remaining = 0\n                return result.getvalue()\n"
M('c14-am-sync-eof-first-chunk-not-marked', 'C14', 'R2', S, _EOF1, "        if chunk_len == 0:\n            return b''\n")          # sa-am03148
M('c14-am-sync-eof-refill-not-marked', 'C14', 'R2', S, _EOF2, "            if chunk_len == 0:\n                return result.getvalue()\n")          # sa-am03237
M('c14-am-sync-eof-budget-decremented-not-zeroed', 'C14', 'R2', S, _EOF1,
  "        if chunk_len == 0:\n            self._max_bytes_remaining -= 1\n            return b''\n")
M('c14-am-sync-gate-one-byte-never-read', 'C14', 'R2', S, "        if size <= 0:\n            return b''\n\n        chunk", "        if size <= 1:\n            return b''\n\n        chunk")          # sa-am03231
M('c14-am-sync-gate-refill-stops-one-short', 'C14', 'R2', S, "            if size <= 0:\n                return result.getvalue()",
  "            if size <= 1:\n                return result.getvalue()")          # sa-am03343
M('c14-am-sync-gate-returns-after-second-read', 'C14', 'R2', S, "            self._max_bytes_remaining -= chunk_len\n            result.write(chunk)\n",
  "            self._max_bytes_remaining -= chunk_len\n            result.write(chunk)\n            return result.getvalue()\n")

# ----------------------------------------------------------------------- R4 eof is the conjunction of {source exhausted} and {buffer drained}
_EOF = "return self._exhausted and self._buffer_len == self._buffer_pos"
M('c14-am-async-eof-disjunction', 'C14', 'R4', A, _EOF, "return self._exhausted or self._buffer_len == self._buffer_pos")          # sa-am00614
M('c14-am-async-eof-drain-negated', 'C14', 'R4', A, _EOF, "return self._exhausted and self._buffer_len != self._buffer_pos")
M('c14-am-async-eof-not-exhausted', 'C14', 'R4', A, _EOF, "return not self._exhausted and self._buffer_len == self._buffer_pos")

# ----------------------------------------------------------------------- R1 the cached length moves with the buffer; a pending chunk is spliced unless empty
M('c14-am-async-prepend-len-not-updated', 'C14', 'R1', A,          # sa-am00581
  "            self._buffer = chunk + self._buffer[self._buffer_pos :]\n            self._buffer_len = len(self._buffer)\n",
  "            self._buffer = chunk + self._buffer[self._buffer_pos :]\n")
_SPLICE = "                self._buffer_len = self._buffer_len - self._buffer_pos + next_chunk_len\n                self._buffer_pos = 0\n"
M('c14-am-sync-finalize-splice-len-not-updated', 'C14', 'R1', S, _SPLICE, "                self._buffer_pos = 0\n")          # sa-am03287
M('c14-am-sync-finalize-splice-len-chunk-subtracted', 'C14', 'R1', S, _SPLICE,          # sa-am03361
  "                self._buffer_len = self._buffer_len - self._buffer_pos - next_chunk_len\n                self._buffer_pos = 0\n")
M('c14-am-sync-finalize-drops-one-byte-chunk', 'C14', 'R1', S, "        if next_chunk_len > 0:\n", "        if next_chunk_len > 1:\n")          # sa-am03282
M('c14-am-sync-finalize-splices-only-behind-consumed-bytes', 'C14', 'R1', S,
  "            else:\n                self._buffer = self._buffer[self._buffer_pos :] + next_chunk\n",
  "            elif self._buffer_pos > 0:\n                self._buffer = self._buffer[self._buffer_pos :] + next_chunk\n")

# ----------------------------------------------------------------------- R10 / R7 (shared with C13) more data is fetched only after the search has provably failed
_FOUND = "                delimiter_pos = self._buffer.find(delimiter, self._buffer_pos)\n                if delimiter_pos >= 0:\n"
M('c14-am-sync-found-test-skips-zero', 'C14', 'R10', S, _FOUND, _FOUND.replace('>= 0', '> 0'), also=['C13'])          # sa-am03371
M('c14-am-sync-found-test-from-one', 'C14', 'R10', S, _FOUND, _FOUND.replace('>= 0', '>= 1'), also=['C13'])          # sa-am03394
M('c14-am-sync-found-test-not-zero', 'C14', 'R10', S, _FOUND, _FOUND.replace('>= 0', '!= 0'), also=['C13'])
M('c14-am-async-buffered-found-test-skips-one', 'C14', 'R7', A, "            if pos > 0:\n                if 0 < size_hint < pos - self._buffer_pos:",
  "            if pos > 1:\n                if 0 < size_hint < pos - self._buffer_pos:", also=['C13'])          # sa-am00692
M('c14-am-async-in-loop-found-test-from-one', 'C14', 'R7', A, "            if pos >= 0:  # pragma: no py39,py310 cover\n                if pos > 0:",
  "            if pos >= 1:  # pragma: no py39,py310 cover\n                if pos > 0:", also=['C13'])

# ----------------------------------------------------------------------- R8 the iteration ends with the cursor at the match
M('c14-am-async-in-loop-found-at-one-not-yielded', 'C14', 'R8', A, "            if pos >= 0:  # pragma: no py39,py310 cover\n                if pos > 0:",
  "            if pos >= 0:  # pragma: no py39,py310 cover\n                if pos > 1:")          # sa-am00737
M('c14-am-async-in-loop-found-stops-one-short', 'C14', 'R8', A, "                    self._buffer_pos = pos\n                    yield self._buffer[:pos]\n",
  "                    self._buffer_pos = pos - 1\n                    yield self._buffer[: pos - 1]\n")

# ----------------------------------------------------------------------- R6 (shared with C13 R7) a fragment match is translated to a buffer position
M('c14-am-sync-border-match-offset-subtracted', 'C14', 'R6', S, "                        delimiter_pos + offset,\n", "                        delimiter_pos - offset,\n", also=['C13'])          # sa-am03402
M('c14-am-sync-border-match-offset-dropped', 'C14', 'R6', S, "                        delimiter_pos + offset,\n", "                        delimiter_pos,\n", also=['C13'])

# ----------------------------------------------------------------------- R16 peek(): the window [cursor, cursor + n), n by the size partition
_NORM = "        if size < 0 or size > self._chunk_size:\n            size = self._chunk_size\n\n"
_SP = _NORM + "        if self._buffer_len - self._buffer_pos < size:"
_AP = _NORM + "        if self._buffer_pos > 0:"
M('c14-am-sync-peek-default-zero', 'C14', 'R16', S, "    def peek(self, size: int = -1) -> bytes:", "    def peek(self, size: int = -0) -> bytes:")          # sa-am03245
M('c14-am-sync-peek-conjunction', 'C14', 'R16', S, _SP, _SP.replace('size < 0 or size >', 'size < 0 and size >'))          # sa-am03159
M('c14-am-sync-peek-oversize-not-clamped', 'C14', 'R16', S, _SP, _SP.replace('size < 0 or size > self._chunk_size', 'size < 0'))          # sa-am03160
M('c14-am-sync-peek-negative-not-normalised', 'C14', 'R16', S, _SP, _SP.replace('size < 0 or size > self._chunk_size', 'size > self._chunk_size'))          # sa-am03161
M('c14-am-sync-peek-normalisation-dropped', 'C14', 'R16', S, _SP, _SP.replace('            size = self._chunk_size\n', '            pass\n'))          # sa-am03162
M('c14-am-sync-peek-from-buffer-start', 'C14', 'R16', S, "return self._buffer[self._buffer_pos : self._buffer_pos + size]", "return self._buffer[: self._buffer_pos + size]")
M('c14-am-sync-peek-refill-test-flipped', 'C14', 'R16', S, "        if self._buffer_len - self._buffer_pos < size:\n            self._fill_buffer()",
  "        if self._buffer_len - self._buffer_pos > size:\n            self._fill_buffer()")
M('c14-am-async-peek-default-zero', 'C14', 'R16', A, "    async def peek(self, size: int = -1) -> bytes:", "    async def peek(self, size: int = -0) -> bytes:")          # sa-am00670
M('c14-am-async-peek-zero-is-a-chunk', 'C14', 'R16', A, _AP, _AP.replace('size < 0 or', 'size <= 0 or'))          # sa-am00671 / sa-am00728
M('c14-am-async-peek-negative-not-normalised', 'C14', 'R16', A, _AP, _AP.replace('size < 0 or size > self._chunk_size', 'size > self._chunk_size'))          # sa-am00603
M('c14-am-async-peek-normalisation-dropped', 'C14', 'R16', A, _AP, _AP.replace('            size = self._chunk_size\n', '            pass\n'))          # sa-am00604
M('c14-am-async-peek-trim-skipped-at-one', 'C14', 'R16', A, _AP, _AP.replace('self._buffer_pos > 0', 'self._buffer_pos > 1'), also=['C13'])          # sa-am00675
M('c14-am-async-peek-loop-left-while-short', 'C14', 'R16', A, "                if self._buffer_len >= size:  # pragma: no py39,py310 cover\n                    break",
  "                if self._buffer_len <= size:  # pragma: no py39,py310 cover\n                    break")          # sa-am00730

# ----------------------------------------------------------------------- R17 None is normalised before it meets a number
_AREAD = "        return await self._read_from(self._iter_with_buffer(size_hint=size or 0), size)\n"
M('c14-am-async-read-none-hint-and', 'C14', 'R17', A, _AREAD, _AREAD.replace('size or 0', 'size and 0'))          # sa-am00744
M('c14-am-async-read-none-hint-raw', 'C14', 'R17', A, _AREAD, _AREAD.replace('size_hint=size or 0', 'size_hint=size'))          # sa-am00745
M('c14-am-sync-normalize-orders-before-none-test', 'C14', None, S, "if size is None or size < 0 or size > max_size:", "if size < 0 or size is None or size > max_size:")

# ----------------------------------------------------------------------- R18 collecting loops: countdown, running total, backlog
M('c14-am-sync-pipe-until-leaves-last-byte', 'C14', 'R18', S, "        while remaining > 0:\n", "        while remaining > 1:\n")          # sa-am03328
M('c14-am-async-read-big-stops-one-short', 'C14', 'R18', A,          # sa-am00727
  "            result_bytes.write(chunk)\n            remaining -= chunk_len\n            if remaining == 0:",
  "            result_bytes.write(chunk)\n            remaining -= chunk_len\n            if remaining == 1:")
M('c14-am-async-read-stops-one-short', 'C14', 'R18', A,
  "                result.append(chunk)\n                remaining -= chunk_len\n                if remaining == 0:",
  "                result.append(chunk)\n                remaining -= chunk_len\n                if remaining == 1:")
M('c14-am-sync-readlines-total-starts-at-one', 'C14', 'R18', S, "        read = 0\n        result = []\n", "        read = 1\n        result = []\n")          # sa-am03226
M('c14-am-sync-readlines-total-overcounts', 'C14', 'R18', S, "                read += len(line)\n", "                read += len(line) + 1\n")
M('c14-am-sync-finalize-backlog-dropped-at-one', 'C14', 'R18', S, "        if have_bytes == 0:\n            # PERF(vytas): Do not join bytes unless needed.",
  "        if have_bytes == 1:\n            # PERF(vytas): Do not join bytes unless needed.")          # sa-am03281
M('c14-am-sync-backlog-total-ignores-cursor', 'C14', 'R18', S, "            have_bytes += self._buffer_len - self._buffer_pos\n", "            have_bytes += self._buffer_len\n")

# ----------------------------------------------------------------------- R10 (shared with C13 R6) a pending look-ahead chunk: no second fetch; border searched
_ENOUGH = "            if have_bytes + self._buffer_len - self._buffer_pos >= size:\n"
M('c14-am-sync-enough-test-cursor-added', 'C14', 'R10', S, _ENOUGH, "            if have_bytes + self._buffer_len + self._buffer_pos >= size:\n", also=['C13'])          # sa-am03382
M('c14-am-sync-enough-test-cursor-ignored', 'C14', 'R10', S, _ENOUGH, "            if have_bytes + self._buffer_len >= size:\n", also=['C13'])
_BORDER = "            if delimiter_len_1 > 0:\n                offset"
M('c14-am-sync-border-skipped-for-two-bytes', 'C14', 'R10', S, _BORDER, "            if delimiter_len_1 > 1:\n                offset", also=['C13'])          # sa-am03376
M('c14-am-sync-border-only-without-backlog', 'C14', 'R10', S, _BORDER, "            if delimiter_len_1 > 0 and have_bytes == 0:\n                offset", also=['C13'])
M('c14-am-sync-border-lookahead-one-short', 'C14', 'R10', S, "next_chunk[:delimiter_len_1]", "next_chunk[: delimiter_len_1 - 1]", also=['C13'])
# not decided (no clause): readlines(hint) `hint >= 0` -> `hint > 0` / `hint >= 1` (sa-am03340, sa-am03385): whether a hint of 0 is a limit or "no limit" is
# fixed by the reference cursor only, not by the surrounding arithmetic (io.IOBase.readlines treats 0 as "no limit", this reader does not)
# negative controls verified by hand with --root (all silent, C14 and C13): found-test as `!= -1` / `> -1` / `found = pos >= 0; if found:` / in-loop
# `if pos != -1: if pos >= 1:` / `if pos >= 0 and pos == self._buffer_pos: return`; `while remaining >= 1` / `while not remaining <= 0`; peek with a local
# `n = chunk_size if ... else size` + `start = self._buffer_pos`, `min(size, chunk_size)` in an else arm, `<= -1` / `>= chunk_size + 1`, a nested slice
# `buf[pos:][:size]`, an unconditional _fill_buffer() / _trim_buffer(), `data = self._buffer[:n]; return data` behind the loop; eof with swapped operands /
# two returns / `not (len - pos)`; gate `size < 1`, `if not chunk:` with the budget zeroed, the gate rewritten as one `while size > 0` loop; _prepend_buffer
# with an arithmetic length update in front of the store; `if next_chunk_len:` / `>= 1`; `self._buffer_len = len(self._buffer)` after the splice; read() with
# `hint = 0 if size is None else size`, a None guard inside _iter_with_buffer; `if not remaining:` / `remaining <= 0`; readlines with a renamed total and
# `total = total + len(line)`; `if not have_bytes:` / `have_bytes <= 0` / always joining the backlog; `offset + delimiter_pos`, by keyword; the enough-test
# through a local `avail`; border guard `if delimiter_len_1:` / `len(delimiter) > 1` / `if True`; every `x op= y` rewritten as `x = x op y`.
# `return bytes(self._buffer[...])` in peek is an unknown idiom (exit 2)

# ---------------------------------------------------- R19 the one-shot iteration guard belongs to __aiter__ alone (seeded change s9-c14-1)
M('c14-asgi-pipe-iterates-self', 'C14', 'R19', A,
  "        async for chunk in self._iter_with_buffer():\n            if destination is not None:",
  "        async for chunk in self:\n            if destination is not None:")
M('c14-asgi-exhaust-iterates-self', 'C14', 'R19', A, "        await self.pipe()\n", "        async for _chunk in self:\n            pass\n")
M('c14-asgi-readall-reads-from-self', 'C14', 'R19', A, "        return await self._read_from(self._iter_with_buffer())\n", "        return await self._read_from(self)\n")
M('c14-asgi-pipe-through-dunder-aiter', 'C14', 'R19', A,
  "        async for chunk in self._iter_with_buffer():\n            if destination is not None:",
  "        async for chunk in self.__aiter__():\n            if destination is not None:")
M('c14-asgi-pipe-refuses-after-iteration', 'C14', 'R19', A,
  "        async for chunk in self._iter_with_buffer():\n            if destination is not None:",
  "        if self._iteration_started:\n            raise OperationNotAllowed('This stream is already being iterated over.')\n"
  "        async for chunk in self._iter_with_buffer():\n            if destination is not None:")
M('c14-asgi-pipe-marks-iteration-started', 'C14', 'R19', A,
  "        async for chunk in self._iter_with_buffer():\n            if destination is not None:",
  "        self._iteration_started = True\n        async for chunk in self._iter_with_buffer():\n            if destination is not None:")
# negative controls verified by hand with --root (silent): see fixer report (wave 9)

# ---------------------------------------------------- "refactoring + break" (second preserving wave): the behaviour-preserving extraction of
# k2-c14-2 (the search across the chunk border of the synchronous _read_until becomes the read-only value helper
# self._find_on_boundary(delimiter, delimiter_len_1, next_chunk) -> match position in BUFFER coordinates or -1; the caller passes
# `delimiter_pos` on) is read through by R6 / R10 (the helper is executed in place) -- plus a real mistake in the helper or at the call
_K2_HELPER_AT = "    def _read_until(\n        self, delimiter: bytes, size: int, consume_delimiter: bool\n    ) -> bytes:\n"
_K2_INLINE = ("                offset = max(self._buffer_len - delimiter_len_1, self._buffer_pos)\n"
              "                fragment = self._buffer[offset:] + next_chunk[:delimiter_len_1]\n"
              "                delimiter_pos = fragment.find(delimiter)\n")
_K2_CALL = "                delimiter_pos = self._find_on_boundary(\n                    delimiter, delimiter_len_1, next_chunk\n                )\n"
_K2_PASS = "                        delimiter,\n                        delimiter_pos + offset,\n                    )"
_K2_HELPER = ("    def _find_on_boundary(\n        self, delimiter: bytes, delimiter_len_1: int, next_chunk: bytes\n    ) -> int:\n"
              "        offset = max(self._buffer_len - delimiter_len_1, self._buffer_pos)\n"
              "        fragment = self._buffer[offset:] + next_chunk[:delimiter_len_1]\n"
              "        fragment_pos = fragment.find(delimiter)\n"
              "        if fragment_pos < 0:\n            return -1\n"
              "        return fragment_pos + offset\n\n")


def _k2_boundary_helper(helper=_K2_HELPER, call=_K2_CALL, passed="                        delimiter,\n                        delimiter_pos,\n                    )"):
    return [{'file': S, 'old': _K2_HELPER_AT, 'new': helper + _K2_HELPER_AT},
            {'file': S, 'old': _K2_INLINE, 'new': call},
            {'file': S, 'old': _K2_PASS, 'new': passed}]


# the helper hands back the position inside the FRAGMENT while the caller no longer adds the offset
M2('c14-k2-boundary-helper-returns-relative-position', 'C14', 'R6',
   _k2_boundary_helper(helper=_K2_HELPER.replace("        return fragment_pos + offset\n", "        return fragment_pos\n")), also=('C13',))
# ... the offset is added twice (by the helper and by the caller)
M2('c14-k2-boundary-helper-offset-added-twice', 'C14', 'R6',
   _k2_boundary_helper(call="                offset = max(self._buffer_len - delimiter_len_1, self._buffer_pos)\n" + _K2_CALL,
                       passed="                        delimiter,\n                        delimiter_pos + offset,\n                    )"), also=('C13',))
# the extracted search looks one byte short into the next chunk
M2('c14-k2-boundary-helper-lookahead-one-short', 'C14', 'R10',
   _k2_boundary_helper(helper=_K2_HELPER.replace("next_chunk[:delimiter_len_1]", "next_chunk[: delimiter_len_1 - 1]")), also=('C13',))
# the extracted search starts in front of the cursor
M2('c14-k2-boundary-helper-searches-consumed-bytes', 'C14', 'R6',
   _k2_boundary_helper(helper=_K2_HELPER.replace("max(self._buffer_len - delimiter_len_1, self._buffer_pos)", "max(self._buffer_len - delimiter_len_1, 0)")), also=('C13',))
# a match at fragment position 0 is reported as "not found"
M2('c14-k2-boundary-helper-match-at-zero-is-not-found', 'C14', 'R10',
   _k2_boundary_helper(helper=_K2_HELPER.replace("        if fragment_pos < 0:\n", "        if fragment_pos <= 0:\n")), also=('C13',))
# the asynchronous twin: the border search of _iter_delimited extracted into a synchronous helper that looks one byte short (R11) /
# whose relative result is stored as the cursor without the offset (R8)
_K2_A_INLINE = "                fragment = self._buffer[offset:] + chunk[:delimiter_len_1]\n                pos = fragment.find(delimiter)\n"
_K2_A_CALL = "                pos = self._find_on_border(delimiter, delimiter_len_1, offset, chunk)\n"
_K2_A_AT = "    async def _iter_delimited(\n"
_K2_A_HELPER = ("    def _find_on_border(self, delimiter, delimiter_len_1, offset, chunk):\n"
                "        fragment = self._buffer[offset:] + chunk[:delimiter_len_1]\n        return fragment.find(delimiter)\n\n")
M2('c14-k2-async-border-helper-lookahead-one-short', 'C14', 'R11',
   [{'file': A, 'old': _K2_A_INLINE, 'new': _K2_A_CALL},
    {'file': A, 'old': _K2_A_AT, 'new': _K2_A_HELPER.replace("chunk[:delimiter_len_1]", "chunk[: delimiter_len_1 - 1]") + _K2_A_AT}], also=('C13',))
M2('c14-k2-async-border-helper-cursor-without-offset', 'C14', 'R8',
   [{'file': A, 'old': _K2_A_INLINE, 'new': _K2_A_CALL},
    {'file': A, 'old': _K2_A_AT, 'new': _K2_A_HELPER + _K2_A_AT},
    {'file': A, 'old': "                    self._buffer_pos = offset + pos\n", 'new': "                    self._buffer_pos = pos\n"}], also=('C13',))

# k2-c14-4: `delimit(delimiter, *, chunk_size=None)` -- an optional keyword no caller passes is its default (R14 evaluates the
# argument under "parameter omitted") -- plus: the default wins over the parent's size / the parameter is handed on as it is
_K2_DELIMIT = "    def delimit(self, delimiter: bytes) -> BufferedReader:\n        read = functools.partial(self.read_until, delimiter)\n"
_K2_DELIMIT_KW = ("    def delimit(\n        self, delimiter: bytes, *, chunk_size: Optional[int] = None\n    ) -> BufferedReader:\n"
                  "        read = functools.partial(self.read_until, delimiter)\n")
M2('c14-k2-delimit-optional-chunk-size-handed-on-as-none', 'C14', 'R14',
   [{'file': S, 'old': _K2_DELIMIT, 'new': _K2_DELIMIT_KW},
    {'file': S, 'old': _SUB, 'new': "        return type(self)(read, self._normalize_size(None), chunk_size)\n"}])
M2('c14-k2-delimit-optional-chunk-size-falls-back-to-default', 'C14', 'R14',
   [{'file': S, 'old': _K2_DELIMIT, 'new': _K2_DELIMIT_KW},
    {'file': S, 'old': _SUB, 'new': "        return type(self)(\n            read, self._normalize_size(None), chunk_size if chunk_size is not None else DEFAULT_CHUNK_SIZE\n        )\n"}])
M2('c14-k2-async-delimit-optional-chunk-size-or-default', 'C14', 'R14',
   [{'file': A, 'old': "    def delimit(self, delimiter: bytes) -> BufferedReader:  # TODO: should se self\n",
     'new': "    def delimit(\n        self, delimiter: bytes, *, chunk_size: Optional[int] = None\n    ) -> BufferedReader:\n"},
    {'file': A, 'old': "return type(self)(self._iter_delimited(delimiter), chunk_size=self._chunk_size)",
     'new': "return type(self)(self._iter_delimited(delimiter), chunk_size=chunk_size or DEFAULT_CHUNK_SIZE)"}])

# a bound method of the reader hoisted into a local (`finalize = self._finalize_read_until`; read as the method itself by every rule:
# Reader normalises the alias away) -- plus a real mistake at one of the aliased calls / in the aliased helper
_K2_ALIAS = [{'file': S, 'old': "return self._finalize_read_until(", 'new': "return finalize(", 'count': 5},
             {'file': S, 'old': "        while True:\n            if self._buffer_len > self._buffer_pos:\n                delimiter_pos = self._buffer.find(",
              'new': "        finalize = self._finalize_read_until\n        while True:\n            if self._buffer_len > self._buffer_pos:\n"
                     "                delimiter_pos = self._buffer.find("}]
M2('c14-k2-finalize-alias-wrong-chunk-len-argument', 'C14', 'R1',
   _K2_ALIAS + [{'file': S, 'old': "                    next_chunk_len=next_chunk_len,\n", 'new': "                    next_chunk_len=self._chunk_size,\n"}], also=('C13',))
M2('c14-k2-finalize-alias-consume-count-one-short', 'C14', None,
   _K2_ALIAS + [{'file': S, 'old': "consume_bytes = (delimiter_len_1 + 1) if consume_delimiter else 0", 'new': "consume_bytes = delimiter_len_1 if consume_delimiter else 0"}],
   also=('C13',))
M2('c14-k2-boundary-helper-alias-lookahead-one-short', 'C14', 'R10',
   _k2_boundary_helper(helper=_K2_HELPER.replace("next_chunk[:delimiter_len_1]", "next_chunk[: delimiter_len_1 - 1]"),
                       call="                find_on_boundary = self._find_on_boundary\n                delimiter_pos = find_on_boundary(\n"
                            "                    delimiter, delimiter_len_1, next_chunk\n                )\n"), also=('C13',))

# ---------------------------------------------------- "refactoring + break" (fourth preserving wave, k4-c13-2): the tail of the synchronous
# _finalize_read_until reshaped into a guard clause (`if not consume_bytes: return ret_value`), a boolean local bound once per arm from the
# verification (`delimiter_follows = self.peek(consume_bytes) == delimiter` / `delimiter_follows = self._buffer_pos == delimiter_pos`) and a
# single `if not delimiter_follows: raise DelimiterError`.  R3 reads the branch on the local as the branch on the comparison recorded at its
# binding on the path (silent on the preserving edit itself) -- plus the mistake R3 exists for
_K4_TAIL = ("        if consume_bytes:\n            if delimiter_pos < 0:\n                if self.peek(consume_bytes) != delimiter:\n"
            "                    raise DelimiterError('expected delimiter missing')\n            elif self._buffer_pos != delimiter_pos:\n"
            "                # NOTE(vytas): If we are going to consume the delimiter the\n"
            "                #   quick way (i.e., skipping the above peek() check), we must\n"
            "                #   make sure it is directly succeeding the result.\n"
            "                raise DelimiterError('expected delimiter missing')\n\n            self._buffer_pos += consume_bytes\n\n        return ret_value\n")
_K4_PEEK = "            delimiter_follows = self.peek(consume_bytes) == delimiter\n"
_K4_POS = "            delimiter_follows = self._buffer_pos == delimiter_pos\n"
_K4_GUARD = "        if not delimiter_follows:\n            raise DelimiterError('expected delimiter missing')\n\n"


def _k4_flag_tail(peek=_K4_PEEK, pos=_K4_POS, guard=_K4_GUARD):
    return ("        if not consume_bytes:\n            return ret_value\n\n        if delimiter_pos < 0:\n" + peek + "        else:\n" + pos + "\n"
            + guard + "        self._buffer_pos += consume_bytes\n        return ret_value\n")


# the flag is computed but the guard clause that raises on it is gone: the delimiter length is skipped unverified
M('c14-k4-finalize-flag-never-tested', 'C14', 'R3', S, _K4_TAIL, _k4_flag_tail(guard=""))
# the guard raises on the wrong value of the flag
M('c14-k4-finalize-flag-guard-inverted', 'C14', 'R3', S, _K4_TAIL,
  _k4_flag_tail(guard="        if delimiter_follows:\n            raise DelimiterError('expected delimiter missing')\n\n"))
# the arm without a match in the buffer presumes the delimiter follows (the peek comparison is dropped, the position arm is kept)
M('c14-k4-finalize-flag-presumed-without-peek', 'C14', 'R3', S, _K4_TAIL, _k4_flag_tail(peek="            delimiter_follows = True\n"))
# the flag is bound from a look at a different number of bytes than the cursor then skips
M('c14-k4-finalize-flag-peeks-one-byte-prefix', 'C14', 'R3', S, _K4_TAIL,
  _k4_flag_tail(peek="            delimiter_follows = delimiter.startswith(self.peek(1))\n"))
# the position arm compares something else than the cursor
M('c14-k4-finalize-flag-position-not-the-cursor', 'C14', 'R3', S, _K4_TAIL,
  _k4_flag_tail(pos="            delimiter_follows = delimiter_pos >= 0\n"))
# wave 10 through the flag: the compared bytes are TAKEN (a consuming read bound to the flag); a failed check has swallowed them
M('c14-k4-finalize-flag-from-consuming-read', 'C14', 'R3', S, _K4_TAIL,
  ("        if not consume_bytes:\n            return ret_value\n\n        if delimiter_pos < 0:\n"
   "            delimiter_follows = self._read(consume_bytes) == delimiter\n"
   "            if not delimiter_follows:\n                raise DelimiterError('expected delimiter missing')\n            return ret_value\n\n"
   + _K4_POS.replace("            ", "        ") + _K4_GUARD + "        self._buffer_pos += consume_bytes\n        return ret_value\n"))
# the same two mistakes at the other consuming sites, flag form
M('c14-k4-sync-pipe-until-flag-from-read', 'C14', 'R3', S, _PIPE_TAIL,
  "            matched = self.read(len(delimiter)) == delimiter\n            if not matched:\n                raise DelimiterError('expected delimiter missing')\n")
M('c14-k4-async-consume-flag-never-tested', 'C14', 'R3', A,
  "        if await self.peek(delimiter_len) != delimiter:\n            raise DelimiterError('expected delimiter missing')\n        self._buffer_pos += delimiter_len\n",
  "        matched = (await self.peek(delimiter_len)).startswith(delimiter)\n        if matched:\n            pass\n        self._buffer_pos += delimiter_len\n")
# negative controls: the k4-c13-2 edit itself (= _k4_flag_tail()) is silent under every property (run_seeded --dir preserving); verified with
# --root, silent under C14: the flag annotated (`delimiter_follows: bool = ...`); bound by one conditional expression `delimiter_follows =
# (self.peek(consume_bytes) == delimiter) if delimiter_pos < 0 else (self._buffer_pos == delimiter_pos)`; the negated flag (`missing =
# self.peek(consume_bytes) != delimiter` / `missing = self._buffer_pos != delimiter_pos` ... `if missing: raise`); pipe_until with
# `matched = self.peek(delimiter_len) == delimiter; if not matched: raise`
