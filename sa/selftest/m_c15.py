"""Mutation operators for C15 (response headers and cookies)."""

from .mutants import M, M2

RESP = 'falcon/response.py'
ARESP = 'falcon/asgi/response.py'
HELP = 'falcon/response_helpers.py'

# -------------------------------------------------------------- R1 lower-case keys
M('c15-set-header-stores-raw-name', 'C15', 'R1', RESP,
  """        name = name.lower()

        if name == 'set-cookie':
            raise HeaderNotSupported('This method cannot be used to set cookies')

        self._headers[name] = value
""", """        if name.lower() == 'set-cookie':
            raise HeaderNotSupported('This method cannot be used to set cookies')

        self._headers[name] = value
""")
M('c15-set-headers-stores-raw-name', 'C15', 'R1', RESP,
  """            name = name.lower()
            if name == 'set-cookie':
                raise HeaderNotSupported('This method cannot be used to set cookies')

            _headers[name] = value
""", """            lname = name.lower()
            if lname == 'set-cookie':
                raise HeaderNotSupported('This method cannot be used to set cookies')

            _headers[name] = value
""")
M('c15-get-header-lowers-only-without-default', 'C15', 'R1', RESP,
  """        name = name.lower()

        if name == 'set-cookie':
            raise HeaderNotSupported('Getting Set-Cookie is not currently supported.')
""", """        if default is None:
            name = name.lower()

        if name == 'set-cookie':
            raise HeaderNotSupported('Getting Set-Cookie is not currently supported.')
""")
M('c15-append-link-titlecase-key', 'C15', 'R1', RESP,
  "            _headers['link'] = value\n", "            _headers['Link'] = value\n")
M('c15-set-stream-titlecase-key', 'C15', 'R1', ARESP,
  "self._headers['content-length'] = str(content_length)", "self._headers['Content-Length'] = str(content_length)")
M('c15-factory-key-not-lowered', 'C15', 'R1', HELP,
  "    normalized_name = name.lower()\n", "    normalized_name = name\n")

# ------------------------------------------------------------- R2 Set-Cookie guard
M('c15-delete-header-no-guard', 'C15', 'R2', RESP,
  """        if name == 'set-cookie':
            raise HeaderNotSupported('This method cannot be used to remove cookies')

""", "")
M('c15-get-header-no-guard', 'C15', 'R2', RESP,
  """        if name == 'set-cookie':
            raise HeaderNotSupported('Getting Set-Cookie is not currently supported.')

""", "")
M('c15-set-headers-guard-after-store', 'C15', 'R2', RESP,
  """            if name == 'set-cookie':
                raise HeaderNotSupported('This method cannot be used to set cookies')

            _headers[name] = value
""", """            _headers[name] = value
            if name == 'set-cookie':
                raise HeaderNotSupported('This method cannot be used to set cookies')
""")
M('c15-append-header-guard-typo', 'C15', 'R2', RESP,
  """        if name == 'set-cookie':
            if not self._extra_headers:""", """        if name == 'set_cookie':
            if not self._extra_headers:""")
M('c15-set-header-guard-compares-raw-case', 'C15', 'R2', RESP,
  """        if name == 'set-cookie':
            raise HeaderNotSupported('This method cannot be used to set cookies')

        self._headers[name] = value
""", """        if name == 'Set-Cookie':
            raise HeaderNotSupported('This method cannot be used to set cookies')

        self._headers[name] = value
""")
M('c15-set-header-cookie-silently-ignored', 'C15', 'R2', RESP,
  """        if name == 'set-cookie':
            raise HeaderNotSupported('This method cannot be used to set cookies')

        self._headers[name] = value
""", """        if name == 'set-cookie':
            value = ''

        self._headers[name] = value
""")
M('c15-append-header-first-cookie-dropped', 'C15', 'R2', RESP,
  """            if not self._extra_headers:
                self._extra_headers = [(name, value)]
            else:
                self._extra_headers.append((name, value))
""", """            if self._extra_headers:
                self._extra_headers.append((name, value))
""")
M('c15-append-header-extra-gets-plain-headers', 'C15', 'R2', RESP,
  """            if name in self._headers:
                value = self._headers[name] + ', ' + value

            self._headers[name] = value
""", """            if name in self._headers:
                value = self._headers[name] + ', ' + value
                self._extra_headers = (self._extra_headers or []) + [(name, value)]

            self._headers[name] = value
""")

# -------------------------------------------------------- R3 three stores, two emitters
M('c15-wsgi-skip-extra-headers', 'C15', 'R3', RESP,
  """        if self._extra_headers:
            items += self._extra_headers

""", "")
M('c15-asgi-skip-extra-headers', 'C15', 'R3', ARESP,
  """        if self._extra_headers:
            items += [
                (n.encode('ascii'), v.encode('ascii')) for n, v in self._extra_headers
            ]

""", "")
M('c15-wsgi-extra-overwrites-items', 'C15', 'R3', RESP,
  "            items += self._extra_headers\n", "            items = self._extra_headers\n")
M('c15-wsgi-cookies-filtered-when-empty-value', 'C15', 'R3', RESP,
  "items += [('set-cookie', c.OutputString()) for c in self._cookies.values()]",
  "items += [('set-cookie', c.OutputString()) for c in self._cookies.values() if c.value]")
M('c15-asgi-extra-names-titlecased', 'C15', 'R3', ARESP,
  "(n.encode('ascii'), v.encode('ascii')) for n, v in self._extra_headers",
  "(n.title().encode('ascii'), v.encode('ascii')) for n, v in self._extra_headers")
M('c15-asgi-cookie-line-name-titlecase', 'C15', 'R3', ARESP,
  "(b'set-cookie', c.OutputString().encode('ascii'))", "(b'Set-Cookie', c.OutputString().encode('ascii'))")
M('c15-asgi-cookies-before-extra', 'C15', 'R3', ARESP,
  """        if self._extra_headers:
            items += [
                (n.encode('ascii'), v.encode('ascii')) for n, v in self._extra_headers
            ]
""", """        if self._cookies is not None:
            items += [
                (b'set-cookie', c.OutputString().encode('ascii'))
                for c in self._cookies.values()
            ]
            self._cookies = None
        if self._extra_headers:
            items += [
                (n.encode('ascii'), v.encode('ascii')) for n, v in self._extra_headers
            ]
""")
M('c15-asgi-extra-only-when-no-cookies', 'C15', 'R3', ARESP,
  "        if self._extra_headers:\n            items += [", "        if self._extra_headers and self._cookies is None:\n            items += [")
M('c15-latin1-encoder-recases-names', 'C15', 'R3', 'falcon/util/misc.py',
  "result.append((key.encode('latin1'), value.encode('latin1')))", "result.append((key.title().encode('latin1'), value.encode('latin1')))")
M('c15-wsgi-cookie-value-not-rendered', 'C15', 'R3', RESP,
  "items += [('set-cookie', c.OutputString()) for c in self._cookies.values()]",
  "items += [('set-cookie', c.value) for c in self._cookies.values()]")

# ------------------------------------------------------------ R4 cookie attributes
M('c15-http-only-wired-to-secure', 'C15', 'R4', RESP,
  "            self._cookies[name]['httponly'] = http_only\n", "            self._cookies[name]['secure'] = http_only\n")
M('c15-partitioned-always-set', 'C15', 'R4', RESP,
  """        if partitioned:
            self._cookies[name]['partitioned'] = True
""", """        self._cookies[name]['partitioned'] = True
""")
M('c15-secure-option-ignored', 'C15', 'R4', RESP,
  "        is_secure = self.options.secure_cookies_by_default if secure is None else secure\n",
  "        is_secure = bool(secure)\n")
M('c15-secure-default-inverted', 'C15', 'R4', RESP,
  "self.options.secure_cookies_by_default if secure is None else secure",
  "self.options.secure_cookies_by_default if secure is not None else secure")
M('c15-max-age-written-to-expires', 'C15', 'R4', RESP,
  "            self._cookies[name]['max-age'] = int(max_age)\n", "            self._cookies[name]['expires'] = int(max_age)\n")
M('c15-domain-guarded-by-path', 'C15', 'R4', RESP,
  """        if domain:
            self._cookies[name]['domain'] = domain

        if path:
            self._cookies[name]['path'] = path

        is_secure""", """        if path:
            self._cookies[name]['domain'] = domain

        if path:
            self._cookies[name]['path'] = path

        is_secure""")
M('c15-same-site-needs-secure', 'C15', 'R4', RESP,
  "        if same_site:\n            same_site = same_site.lower()\n", "        if same_site and is_secure:\n            same_site = same_site.lower()\n")
M('c15-max-age-truthiness-guard', 'C15', 'R4', RESP,
  "        if max_age is not None:\n", "        if max_age:\n")   # applies once F9 is repaired; skipped before
M('c15-max-age-guard-mixed', 'C15', 'R4', RESP,
  "        if max_age:\n", "        if max_age and not expires:\n")
M('c15-unset-cookie-expires-in-future', 'C15', 'R4', RESP,
  "        self._cookies[name]['expires'] = -1\n", "        self._cookies[name]['expires'] = 3600\n")
M('c15-unset-cookie-keeps-existing-value', 'C15', 'R4', RESP,
  "        self._cookies[name] = ''\n", "        if name not in self._cookies:\n            self._cookies[name] = ''\n")
M('c15-unset-cookie-expires-only-without-domain', 'C15', 'R4', RESP,
  "        self._cookies[name]['expires'] = -1\n", "        if not domain:\n            self._cookies[name]['expires'] = -1\n")
M('c15-unset-cookie-samesite-from-path', 'C15', 'R4', RESP,
  "        self._cookies[name]['samesite'] = samesite\n", "        self._cookies[name]['samesite'] = path or samesite\n")

# ---------------------------------------------------------------- R5 URI helpers
M('c15-location-not-encoded', 'C15', 'R5', RESP,
  '''        header should be set manually using the set_header method.
        """,
        uri_encode,
    )
    """Set the Location header.''', '''        header should be set manually using the set_header method.
        """,
    )
    """Set the Location header.''')
M('c15-content-location-str-transform', 'C15', 'R5', RESP,
  '''        uri_encode,
    )
    """Set the Content-Location header.''', '''        str,
    )
    """Set the Content-Location header.''')
M('c15-append-link-anchor-raw', 'C15', 'R5', RESP,
  """value += f'; anchor="{uri_encode(anchor)}"'""", """value += f'; anchor="{anchor}"'""")
M('c15-append-link-target-raw', 'C15', 'R5', RESP,
  "value = '<' + uri_encode(target) + '>; rel=' + rel", "value = '<' + target + '>; rel=' + rel")
M('c15-append-link-title-star-uri-encoder', 'C15', 'R5', RESP,
  "{uri_encode_value(title_star[1])}", "{uri_encode(title_star[1])}")
M('c15-append-link-title-star-raw', 'C15', 'R5', RESP,
  "{uri_encode_value(title_star[1])}", "{title_star[1]}")
M('c15-content-disposition-raw-extended-name', 'C15', 'R5', HELP,
  "        uri.encode_value(value),\n", "        value,\n")
M('c15-content-disposition-wrong-charset-label', 'C15', 'R5', HELP,
  "filename*=UTF-8''%s", "filename*=ISO-8859-1''%s")
M('c15-downloadable-as-unformatted', 'C15', 'R5', RESP,
  "        functools.partial(_format_content_disposition, disposition_type='attachment'),\n", "        str,\n")

# ------------------------------------------------------------ R6 property factory
M('c15-factory-none-is-stored', 'C15', 'R6', HELP,
  """        def fset(self: Response, value: Optional[Any]) -> None:
            if value is None:
                try:
                    del self._headers[normalized_name]
                except KeyError:
                    pass
            else:
                self._headers[normalized_name] = str(value)
""", """        def fset(self: Response, value: Optional[Any]) -> None:
            self._headers[normalized_name] = str(value)
""")
M('c15-factory-transform-not-applied', 'C15', 'R6', HELP,
  "                self._headers[normalized_name] = transform(value)\n", "                self._headers[normalized_name] = str(value)\n")
M('c15-factory-deleter-raw-key', 'C15', 'R6', HELP,
  "        del self._headers[normalized_name]\n\n    return property", "        del self._headers[name]\n\n    return property")
M('c15-factory-falsy-deletes', 'C15', 'R6', HELP,
  "            if value is None:\n", "            if not value:\n", count=2)   # both setter variants
M('c15-factory-none-branch-noop', 'C15', 'R6', HELP,
  """                try:
                    del self._headers[normalized_name]
                except KeyError:
                    pass
            else:
                self._headers[normalized_name] = transform(value)
""", """                pass
            else:
                self._headers[normalized_name] = transform(value)
""")

M('c15-expires-astimezone-unconditional', 'C15', 'R4', 'falcon/response.py',
  """            if expires.tzinfo is None:
                # naive
                self._cookies[name]['expires'] = expires.strftime(fmt)
            else:
                # aware
                gmt_expires = expires.astimezone(timezone.utc)
                self._cookies[name]['expires'] = gmt_expires.strftime(fmt)
""", """            gmt_expires = expires.astimezone(timezone.utc)
            self._cookies[name]['expires'] = gmt_expires.strftime(fmt)
""")
M('c15-secure-filename-word-class', 'C15', 'R10', 'falcon/util/misc.py',
  "_UNSAFE_CHARS = re.compile(r'[^a-zA-Z0-9.-]')", "_UNSAFE_CHARS = re.compile(r'[^\\w.-]')")

M('c15-append-header-truthiness-of-current', 'C15', 'R12', 'falcon/response.py',
  """            if name in self._headers:
                value = self._headers[name] + ', ' + value
""", """            current = self._headers.get(name)
            if current:
                value = current + ', ' + value
""")

# ---- wave 4
M('c15-set-cookie-rollback-deletes-jar-entry', 'C15', 'R14', 'falcon/response.py',
  """            if same_site not in _RESERVED_SAMESITE_VALUES:
                raise ValueError(
""", """            if same_site not in _RESERVED_SAMESITE_VALUES:
                del self._cookies[name]
                raise ValueError(
""")
M('c15-unset-cookie-pops-jar-entry', 'C15', 'R14', 'falcon/response.py',
  """        self._cookies[name] = ''
""", """        self._cookies.pop(name, None)
        self._cookies[name] = ''
""")
M('c15-set-cookie-replaces-jar', 'C15', 'R14', 'falcon/response.py',
  """        if self._cookies is None:
            self._cookies = http_cookies.SimpleCookie()

        try:
""", """        if not self._cookies or name in self._cookies:
            self._cookies = http_cookies.SimpleCookie()

        try:
""")

# ---- wave 5: the rendered download name is the assigned value itself (R15)
M2('c15-disposition-basename-of-pathlike', 'C15', 'R15', [
    {'file': HELP, 'old': "from __future__ import annotations\n", 'new': "from __future__ import annotations\n\nimport os\n"},
    {'file': HELP, 'old': '''    """Format a Content-Disposition header given a filename."""
''', 'new': '''    """Format a Content-Disposition header given a filename."""
    value = os.path.basename(os.fspath(value))
'''}])
M('c15-disposition-last-segment-local', 'C15', 'R15', HELP,
  '''    """Format a Content-Disposition header given a filename."""
''', '''    """Format a Content-Disposition header given a filename."""
    name = value.replace('\\\\', '/').split('/')[-1]
    value = name
''')
M('c15-disposition-star-form-stripped', 'C15', 'R15', HELP,
  "        uri.encode_value(value),\n", "        uri.encode_value(value.strip()),\n")
M2('c15-disposition-nfc-before-render', 'C15', 'R15', [
    {'file': HELP, 'old': "from __future__ import annotations\n", 'new': "from __future__ import annotations\n\nimport unicodedata\n"},
    {'file': HELP, 'old': '''    if value.isascii():
        return '%s; filename="%s"' % (disposition_type, value)
''', 'new': '''    if value.isascii():
        return '%s; filename="%s"' % (disposition_type, value)
    value = unicodedata.normalize('NFC', value)
'''}])
M('c15-disposition-quoted-form-truncated', 'C15', 'R15', HELP,
  """        return '%s; filename="%s"' % (disposition_type, value)
""", """        return '%s; filename="%s"' % (disposition_type, value[:64])
""")

# ---- wave 6: last-segment idioms before the rendering (R15)
DOC = '''    """Format a Content-Disposition header given a filename."""
'''
# seeded change s6-c15-2: "RFC 6266 section 4.3" - only the last path segment is sent: 'AC/DC - Back in Black.mp3' -> 'DC - Back in Black.mp3'
M('c15-disposition-last-segment-rpartition-or', 'C15', 'R15', HELP, DOC,
  DOC + "    value = value.replace('\\\\', '/').rpartition('/')[2] or value\n")
M('c15-disposition-last-segment-rsplit', 'C15', 'R15', HELP, DOC, DOC + "    value = value.rsplit('/', 1)[-1]\n")
M2('c15-disposition-last-segment-re-split', 'C15', 'R15', [
    {'file': HELP, 'old': "from __future__ import annotations\n", 'new': "from __future__ import annotations\n\nimport re\n"},
    {'file': HELP, 'old': DOC, 'new': DOC + "    value = re.split(r'[/\\\\]', value)[-1]\n"}])
M2('c15-disposition-purepath-name', 'C15', 'R15', [
    {'file': HELP, 'old': "from __future__ import annotations\n", 'new': "from __future__ import annotations\n\nfrom pathlib import PureWindowsPath\n"},
    {'file': HELP, 'old': DOC, 'new': DOC + "    value = PureWindowsPath(value).name or value\n"}])
M2('c15-disposition-ntpath-basename', 'C15', 'R15', [
    {'file': HELP, 'old': "from __future__ import annotations\n", 'new': "from __future__ import annotations\n\nimport ntpath\n"},
    {'file': HELP, 'old': DOC, 'new': DOC + "    if '/' in value or '\\\\' in value:\n        value = ntpath.basename(value)\n"}])

# ---- wave 6: the check-escaped encoders behind Location / Content-Location / Link keep a literal '%' (R11 = C10 R1)
# seeded change s6-c15-1 (generator form): resp.location = '/files/report 100%20done.txt' -> '/files/report%20100%20done.txt'
M2('c15-location-partial-escape-keeps-percent', 'C15', 'R11', [
    {'file': 'falcon/util/uri.py', 'old': "    encode_char = _create_char_encoder(allowed_chars)\n",
     'new': "    encode_char = _create_char_encoder(allowed_chars)\n    keep_escapes = _create_char_encoder(allowed_chars + '%')\n"},
    {'file': 'falcon/util/uri.py', 'old': "        if check_is_escaped and not uri.rstrip(allowed_chars_plus_percent):",
     'new': "        if check_is_escaped and '%' in uri:"},
    {'file': 'falcon/util/uri.py', 'old': "                # encoded.\n                return uri\n",
     'new': "                # encoded.\n                return ''.join(keep_escapes(b) for b in uri.encode())\n"}],
   also=('C10',))

# ---- wave 8: a cookie attribute is decided through a REBOUND local under a test of another parameter (R4 def-use with control)
SECURE_BLOCK = """        if is_secure:
            self._cookies[name]['secure'] = True

"""
PARTITIONED_BLOCK = """        if partitioned:
            self._cookies[name]['partitioned'] = True
"""
# seeded change s8-c15-2 ("rfc6265bis 4.1.2.7"): set_cookie('sid', 'v', secure=False, same_site='None') emits Secure
M2('c15-samesite-none-forces-secure-local', 'C15', 'R4', [
    {'file': RESP, 'old': SECURE_BLOCK, 'new': ''},
    {'file': RESP, 'old': PARTITIONED_BLOCK,
     'new': "            if same_site == 'none':\n                is_secure = True\n\n" + SECURE_BLOCK + PARTITIONED_BLOCK}])
# the same through the parameter itself, rebound before the default is taken: secure=False, partitioned=True emits Secure
M('c15-partitioned-rebinds-secure-param', 'C15', 'R4', RESP,
  "        is_secure = self.options.secure_cookies_by_default if secure is None else secure\n",
  "        if partitioned:\n            secure = True\n"
  "        is_secure = self.options.secure_cookies_by_default if secure is None else secure\n")
# another attribute, two hops: http_only=False on a host-only Secure cookie emits HttpOnly
M('c15-secure-host-only-forces-httponly', 'C15', 'R4', RESP,
  "        if http_only:\n            self._cookies[name]['httponly'] = http_only\n",
  "        harden = False\n        if is_secure and not domain:\n            harden = True\n"
  "        if http_only or harden:\n            self._cookies[name]['httponly'] = True\n")

# ---- auto-mutation seeds (wave am)
# sa-am02189 and siblings (R16 = C05 R12, shared): every plain-header writer stores str(value)
_STR_NOTE = "        # to US-ASCII.\n        value = str(value)\n"
M('c15-set-headers-value-not-stringified', 'C15', 'R16', RESP, "            value = str(value)\n", "            pass\n", also=('C05',))
M2('c15-set-header-value-not-stringified', 'C15', 'R16',
   [{'file': RESP, 'old': _STR_NOTE, 'new': "        # to US-ASCII.\n", 'count': 2, 'occurrence': 0}], also=('C05',))
M2('c15-append-header-value-not-stringified', 'C15', 'R16',
   [{'file': RESP, 'old': _STR_NOTE, 'new': "        # to US-ASCII.\n", 'count': 2, 'occurrence': 1}], also=('C05',))
M('c15-set-headers-stringifies-name-instead', 'C15', 'R16', RESP, "            value = str(value)\n", "            name = str(name)\n", also=('C05',))

# sa-am02224 (R17): a failed jar store (illegal cookie name) is not swallowed
_JAR_RAISE = "            raise KeyError(str(e))\n"
M('c15-cookie-error-swallowed', 'C15', 'R17', RESP, _JAR_RAISE, "            pass\n")
M('c15-cookie-error-returns', 'C15', 'R17', RESP, _JAR_RAISE, "            return\n")
M('c15-cookie-error-raised-only-when-strict', 'C15', 'R17', RESP, _JAR_RAISE,
  "            if self.options.secure_cookies_by_default:\n                raise KeyError(str(e))\n")
M2('c15-cookie-error-broad-handler-swallows', 'C15', 'R17', [
    {'file': RESP, 'old': "        except http_cookies.CookieError as e:  # pragma: no cover\n", 'new': "        except Exception:  # pragma: no cover\n"},
    {'file': RESP, 'old': _JAR_RAISE, 'new': "            pass\n"}])

# sa-am02280 (R18 = C09 R4, shared): the ETag formatter tests the LAST character
M('c15-etag-tests-first-char', 'C15', 'R18', HELP, "    if value[-1] != '\"':\n", "    if value[-0] != '\"':\n", also=('C09',))
M('c15-etag-tests-index-0', 'C15', 'R18', HELP, "    if value[-1] != '\"':\n", "    if value[0] != '\"':\n", also=('C09',))
M('c15-etag-wraps-when-quoted', 'C15', 'R18', HELP, "    if value[-1] != '\"':\n", "    if value[-1] == '\"':\n", also=('C09',))

# ---- wave 9
# s9-c15-1 (R12, readers): presence is decided by the key, never by the truth of the value read
_GET = "        return self._headers.get(name, default)\n"
M('c15-get-header-or-default', 'C15', 'R12', RESP, _GET, "        return self._headers.get(name) or default\n")
M('c15-get-header-value-truth-local', 'C15', 'R12', RESP, _GET,
  "        value = self._headers.get(name)\n        if not value:\n            return default\n        return value\n")
M('c15-get-header-conditional-on-value', 'C15', 'R12', RESP, _GET,
  "        return self._headers[name] if name in self._headers and self._headers[name] != '' else default\n")
M('c15-delete-header-only-truthy-value', 'C15', 'R12', RESP, "        self._headers.pop(name, None)\n",
  "        if self._headers.get(name):\n            del self._headers[name]\n")
M('c15-property-getter-or-none', 'C15', 'R12', HELP,
  "        try:\n            return self._headers[normalized_name]\n        except KeyError:\n            return None\n",
  "        return self._headers.get(normalized_name) or None\n")

# s9-c15-2 (R4, provenance): Domain / Path carry the parameter itself, in set_cookie and unset_cookie alike
_PATH = "        if path:\n            self._cookies[name]['path'] = path\n"
_DOMAIN = "        if domain:\n            self._cookies[name]['domain'] = domain\n"
M2('c15-unset-cookie-path-trailing-slash-stripped', 'C15', 'R4',
   [{'file': RESP, 'old': _PATH, 'new': "        if path:\n            self._cookies[name]['path'] = path.rstrip('/') or '/'\n", 'count': 2, 'occurrence': 1}])
M2('c15-set-cookie-path-normalised-local', 'C15', 'R4',
   [{'file': RESP, 'old': _PATH, 'new': "        if path:\n            path = path.rstrip('/') or '/'\n            self._cookies[name]['path'] = path\n",
     'count': 2, 'occurrence': 0}])
M2('c15-unset-cookie-domain-leading-dot-stripped', 'C15', 'R4',
   [{'file': RESP, 'old': _DOMAIN, 'new': "        if domain:\n            self._cookies[name]['domain'] = domain.lstrip('.')\n", 'count': 2, 'occurrence': 1}])
M2('c15-unset-cookie-path-constant', 'C15', 'R4',
   [{'file': RESP, 'old': _PATH, 'new': "        if path:\n            self._cookies[name]['path'] = '/'\n", 'count': 2, 'occurrence': 1}])
M2('c15-unset-cookie-path-written-for-empty', 'C15', 'R4',
   [{'file': RESP, 'old': _PATH, 'new': "        if path is not None:\n            self._cookies[name]['path'] = path\n", 'count': 2, 'occurrence': 1}])

# s9-c15-3 (R3): every appended raw Set-Cookie line is emitted, no filter over _extra_headers
M('c15-wsgi-extra-filtered-by-jar-names', 'C15', 'R3', RESP, "            items += self._extra_headers\n",
  "            cookies = self._cookies or ()\n            items += [\n                (n, v)\n                for n, v in self._extra_headers\n"
  "                if v.partition('=')[0].strip() not in cookies\n            ]\n", also=('C06',))
M('c15-asgi-extra-filtered-empty-values', 'C15', 'R3', ARESP,
  "(n.encode('ascii'), v.encode('ascii')) for n, v in self._extra_headers\n",
  "(n.encode('ascii'), v.encode('ascii')) for n, v in self._extra_headers if v\n", also=('C06',))

# R6, the two setter variants merged into one that stores <coercion>(value), the coercion bound when the property is created
# (behaviour-preserving form: preserving/k1-c15-1; each mutant is that refactoring PLUS a break)
_TWO_SETTERS = """    if transform is None:

        def fset(self: Response, value: Optional[Any]) -> None:
            if value is None:
                try:
                    del self._headers[normalized_name]
                except KeyError:
                    pass
            else:
                self._headers[normalized_name] = str(value)

    else:

        def fset(self: Response, value: Optional[Any]) -> None:
            if value is None:
                try:
                    del self._headers[normalized_name]
                except KeyError:
                    pass
            else:
                self._headers[normalized_name] = transform(value)
"""
_ONE_SETTER = """
    def fset(self: Response, value: Optional[Any]) -> None:
        if value is None:
            try:
                del self._headers[normalized_name]
            except KeyError:
                pass
        else:
            self._headers[normalized_name] = to_header_value(value)
"""
M('c15-factory-merged-setter-coercion-swapped', 'C15', 'R6', HELP, _TWO_SETTERS,
  "    to_header_value = transform if transform is None else str\n" + _ONE_SETTER)
M('c15-factory-merged-setter-always-str', 'C15', 'R6', HELP, _TWO_SETTERS,
  "    to_header_value = str\n" + _ONE_SETTER)
M('c15-factory-merged-setter-wrong-polarity', 'C15', 'R6', HELP, _TWO_SETTERS,
  "    to_header_value = str if transform is not None else transform\n" + _ONE_SETTER)
M('c15-factory-merged-setter-and-for-or', 'C15', 'R6', HELP, _TWO_SETTERS,
  "    to_header_value = transform and str\n" + _ONE_SETTER)


# ------------------------------------------------------------- "refactoring + break" (second preserving wave)
# k2-c15-2: the lower-case + Set-Cookie refusal block of get_header / set_header / delete_header / set_headers moved into a
# module-level helper `_plain_header_name(name, error_message)`.  The refactoring itself is silent (R1 reads the helper's
# returns, R2 proves "not set-cookie" inside it and judges its refusal); each mutant below is that refactoring plus one break.
_K2_HELPER = """def _plain_header_name(name: str, error_message: str) -> str:
    name = name.lower()
    if name == 'set-cookie':
        raise HeaderNotSupported(error_message)
    return name


class Response:
"""


def _k2_c15_2(helper=_K2_HELPER, delete_call="        name = _plain_header_name(name, 'This method cannot be used to remove cookies')\n"):
    return [
        {'file': RESP, 'old': "class Response:\n", 'new': helper},
        {'file': RESP, 'old': """        name = name.lower()

        if name == 'set-cookie':
            raise HeaderNotSupported('Getting Set-Cookie is not currently supported.')
""", 'new': "        name = _plain_header_name(name, 'Getting Set-Cookie is not currently supported.')\n"},
        {'file': RESP, 'old': """        name = name.lower()

        if name == 'set-cookie':
            raise HeaderNotSupported('This method cannot be used to set cookies')
""", 'new': "        name = _plain_header_name(name, 'This method cannot be used to set cookies')\n"},
        {'file': RESP, 'old': """        name = name.lower()

        if name == 'set-cookie':
            raise HeaderNotSupported('This method cannot be used to remove cookies')
""", 'new': delete_call},
        {'file': RESP, 'old': """            name = name.lower()
            if name == 'set-cookie':
                raise HeaderNotSupported('This method cannot be used to set cookies')
""", 'new': "            name = _plain_header_name(name, 'This method cannot be used to set cookies')\n"},
    ]


M2('c15-k2-name-helper-does-not-refuse', 'C15', 'R2',
   _k2_c15_2(helper=_K2_HELPER.replace("        raise HeaderNotSupported(error_message)\n", "        pass\n")))
M2('c15-k2-name-helper-compares-titlecase', 'C15', 'R2',
   _k2_c15_2(helper=_K2_HELPER.replace("if name == 'set-cookie':", "if name == 'Set-Cookie':")))
M2('c15-k2-name-helper-inverted-guard', 'C15', 'R2',
   _k2_c15_2(helper=_K2_HELPER.replace("if name == 'set-cookie':", "if name != 'set-cookie':")))
M2('c15-k2-name-helper-returns-raw-name', 'C15', 'R1',
   _k2_c15_2(helper=_K2_HELPER.replace("    name = name.lower()\n    if name == 'set-cookie':", "    if name.lower() == 'set-cookie':")))
M2('c15-k2-delete-header-skips-name-helper', 'C15', 'R2',
   _k2_c15_2(delete_call="        name = name.lower()\n"))
# the same guard spelled as a vetting statement / a predicate helper, broken
M2('c15-k2-refuse-helper-called-before-lowering', 'C15', 'R2', [
    {'file': RESP, 'old': "class Response:\n",
     'new': "def _refuse_set_cookie(name, message):\n    if name == 'set-cookie':\n        raise HeaderNotSupported(message)\n\n\nclass Response:\n"},
    {'file': RESP, 'old': """        name = name.lower()

        if name == 'set-cookie':
            raise HeaderNotSupported('This method cannot be used to remove cookies')
""", 'new': "        _refuse_set_cookie(name, 'This method cannot be used to remove cookies')\n        name = name.lower()\n"}])
M2('c15-k2-predicate-helper-inverted', 'C15', 'R2', [
    {'file': RESP, 'old': "class Response:\n", 'new': "def _is_set_cookie(name):\n    return name != 'set-cookie'\n\n\nclass Response:\n"},
    {'file': RESP, 'old': """        if name == 'set-cookie':
            raise HeaderNotSupported('This method cannot be used to remove cookies')
""", 'new': "        if _is_set_cookie(name):\n            raise HeaderNotSupported('This method cannot be used to remove cookies')\n"}])

# further "refactoring + break" mutants: each is a behaviour-preserving rewrite the rules now read (same-class / module-level
# helper handed the tracked value, local or closure alias bound once, module-level literal, inert extra parameter) plus one break
_MORSEL_HELPER = "    def _morsel(self, name):\n        return self._cookies[name]\n\n    def unset_cookie("
_DOMAIN_PATH = """        if domain:
            self._cookies[name]['domain'] = domain

        if path:
            self._cookies[name]['path'] = path

        is_secure"""
M2('c15-k2-morsel-helper-domain-from-path', 'C15', 'R4', [
    {'file': RESP, 'old': "    def unset_cookie(", 'new': _MORSEL_HELPER},
    {'file': RESP, 'old': _DOMAIN_PATH, 'new': """        if domain:
            self._morsel(name)['domain'] = path

        if path:
            self._morsel(name)['path'] = path

        is_secure"""}])
M2('c15-k2-attr-setter-helper-path-presence-widened', 'C15', 'R4', [
    {'file': RESP, 'old': "    def unset_cookie(",
     'new': "    def _set_attr(self, name, key, value):\n        self._cookies[name][key] = value\n\n    def unset_cookie("},
    {'file': RESP, 'old': _DOMAIN_PATH, 'new': """        if domain:
            self._set_attr(name, 'domain', domain)

        if path is not None:
            self._set_attr(name, 'path', path)

        is_secure"""}])
M2('c15-k2-secure-default-helper-inverted', 'C15', 'R4', [
    {'file': RESP, 'old': "    def unset_cookie(",
     'new': "    def _cookie_secure(self, secure):\n        return self.options.secure_cookies_by_default if secure is not None else secure\n\n"
            "    def unset_cookie("},
    {'file': RESP, 'old': "        is_secure = self.options.secure_cookies_by_default if secure is None else secure\n",
     'new': "        is_secure = self._cookie_secure(secure)\n"}])
M2('c15-k2-secure-default-helper-ignores-option', 'C15', 'R4', [
    {'file': RESP, 'old': "    def unset_cookie(",
     'new': "    def _cookie_secure(self, secure):\n        return True if secure is None else secure\n\n    def unset_cookie("},
    {'file': RESP, 'old': "        is_secure = self.options.secure_cookies_by_default if secure is None else secure\n",
     'new': "        is_secure = self._cookie_secure(secure)\n"}])
M('c15-k2-factory-key-alias-of-raw-name', 'C15', None, HELP,
  "    def fdel(self: Response) -> None:\n        del self._headers[normalized_name]",
  "    key = name\n\n    def fdel(self: Response) -> None:\n        del self._headers[key]")
M2('c15-k2-cookie-lines-helper-filters', 'C15', 'R3', [
    {'file': RESP, 'old': "    def _wsgi_headers(self",
     'new': "    def _cookie_lines(self):\n        return [('set-cookie', c.OutputString()) for c in self._cookies.values() if c.value]\n\n"
            "    def _wsgi_headers(self"},
    {'file': RESP, 'old': "items += [('set-cookie', c.OutputString()) for c in self._cookies.values()]", 'new': "items += self._cookie_lines()"}])
M2('c15-k2-extra-lines-helper-filters', 'C15', 'R3', [
    {'file': ARESP, 'old': "class Response(",
     'new': "def _encode_lines(lines):\n    return [(n.encode('ascii'), v.encode('ascii')) for n, v in lines if v]\n\n\nclass Response("},
    {'file': ARESP, 'old': "            items += [\n                (n.encode('ascii'), v.encode('ascii')) for n, v in self._extra_headers\n            ]",
     'new': "            items += _encode_lines(self._extra_headers)"}])
_JAR_CREATE = """        value = str(value)

        if self._cookies is None:
            self._cookies = http_cookies.SimpleCookie()

        try:
            self._cookies[name] = value"""
M('c15-k2-jar-alias-replaced-when-present', 'C15', 'R14', RESP, _JAR_CREATE, """        value = str(value)

        jar = self._cookies
        if jar is not None:
            jar = self._cookies = http_cookies.SimpleCookie()

        try:
            jar[name] = value""")
M('c15-k2-jar-alias-pops-old-entry', 'C15', 'R14', RESP, _JAR_CREATE, """        value = str(value)

        jar = self._cookies
        if jar is None:
            jar = self._cookies = http_cookies.SimpleCookie()
        jar.pop(name, None)

        try:
            jar[name] = value""")
_EXT_RETURN = """    return "%s; filename=%s; filename*=UTF-8''%s" % (
        disposition_type,
        secure_filename(value),
        uri.encode_value(value),
    )"""
M('c15-k2-disposition-local-not-encoded', 'C15', 'R5', HELP, _EXT_RETURN, """    fallback = secure_filename(value)
    encoded = value
    return "%s; filename=%s; filename*=UTF-8''%s" % (
        disposition_type,
        fallback,
        encoded,
    )""")
M2('c15-k2-disposition-template-constant-without-star', 'C15', 'R5', [
    {'file': HELP, 'old': "def _format_content_disposition(",
     'new': "_EXT_DISPOSITION = \"%s; filename=%s; filename=UTF-8''%s\"\n\n\ndef _format_content_disposition("},
    {'file': HELP, 'old': "    return \"%s; filename=%s; filename*=UTF-8''%s\" % (", 'new': "    return _EXT_DISPOSITION % ("}])
M2('c15-k2-unset-cookie-inert-expires-default-positive', 'C15', 'R4', [
    {'file': RESP, 'old': "        path: Optional[str] = None,\n    ) -> None:\n        \"\"\"Unset a cookie",
     'new': "        path: Optional[str] = None,\n        _expires: int = 1,\n    ) -> None:\n        \"\"\"Unset a cookie"},
    {'file': RESP, 'old': "        self._cookies[name]['expires'] = -1", 'new': "        self._cookies[name]['expires'] = _expires"}])

# ---------------------------------------------------------------- wave 11
# R7 (shared with C10 R5), seed s11-c15-2: the already-escaped scan behind Location / Content-Location / Link rewritten
# as a find() loop whose slice test is also true for a slice shorter than two characters: resp.location = '/sale/100%'
# is emitted verbatim
_W11_SPLIT_SCAN = ("            tokens = uri.split('%')\n            for token in tokens[1:]:\n                hex_octet = token[:2]\n\n"
                   "                if not len(hex_octet) == 2:\n                    break\n\n"
                   "                if not (hex_octet[0] in _HEX_DIGITS and hex_octet[1] in _HEX_DIGITS):\n                    break\n")
M('c15-w11-find-scan-rstrip-no-length', 'C15', 'R7', 'falcon/util/uri.py', _W11_SPLIT_SCAN,
  "            pos = uri.find('%')\n            while pos != -1:\n                if uri[pos + 1 : pos + 3].rstrip(_HEX_DIGITS):\n"
  "                    break\n\n                pos = uri.find('%', pos + 3)\n", also=('C10',))
M('c15-w11-find-scan-lstrip-eq-empty', 'C15', 'R7', 'falcon/util/uri.py', _W11_SPLIT_SCAN,
  "            pos = uri.find('%')\n            while pos != -1:\n                chunk = uri[pos + 1 : pos + 3]\n"
  "                if chunk.lstrip(_HEX_DIGITS) != '':\n                    break\n\n                pos = uri.find('%', pos + 1)\n", also=('C10',))


# k4-c15-1 refactoring + break: inverted test / guard clauses / early returns, presence decided by the truth of the stored value
_APPEND_OLD = """        if name == 'set-cookie':
            if not self._extra_headers:
                self._extra_headers = [(name, value)]
            else:
                self._extra_headers.append((name, value))
        else:
            if name in self._headers:
                value = self._headers[name] + ', ' + value

            self._headers[name] = value
"""
M('c15-k4-append-header-guard-clauses-truthiness', 'C15', 'R12', 'falcon/response.py', _APPEND_OLD,
  """        if name != 'set-cookie':
            current = self._headers.get(name)
            if not current:
                self._headers[name] = value
                return

            self._headers[name] = current + ', ' + value
            return

        if self._extra_headers:
            self._extra_headers.append((name, value))
            return

        self._extra_headers = [(name, value)]
""")
M('c15-k4-append-header-guard-clauses-ifexp-truthiness', 'C15', 'R12', 'falcon/response.py', _APPEND_OLD,
  """        if name != 'set-cookie':
            self._headers[name] = (self._headers[name] + ', ' + value) if self._headers.get(name) else value
            return

        if self._extra_headers:
            self._extra_headers.append((name, value))
            return

        self._extra_headers = [(name, value)]
""")
