"""Mutation operators for C16 (static routes)."""

from .mutants import M, M2

ST = 'falcon/routing/static.py'

# ---------------------------------------------------------------- R1 containment
M('c16-drop-normalized-prefix-guard', 'C16', 'R1', ST,
  """        if normalized.startswith(self._DISALLOWED_NORMALIZED_PREFIXES):
            raise falcon.HTTPNotFound()

""", "")
M('c16-prefix-guard-misses-absolute', 'C16', 'R1', ST,
  """        '..' + os.path.sep,
        os.path.sep,
    )""", """        '..' + os.path.sep,
    )""")
M('c16-drop-dotdot-guard', 'C16', 'R1', ST,
  "if '..' in file_path or not file_path.startswith(self._directory):",
  "if not file_path.startswith(self._directory):")
M('c16-prefix-guard-inverted', 'C16', 'R1', ST,
  "if normalized.startswith(self._DISALLOWED_NORMALIZED_PREFIXES):",
  "if not normalized.startswith(self._DISALLOWED_NORMALIZED_PREFIXES):")
M('c16-join-raw-remainder', 'C16', 'R1', ST,
  "file_path = os.path.join(self._directory, normalized)",
  "file_path = os.path.join(self._directory, without_prefix)")
M('c16-concat-instead-of-join', 'C16', 'R1', ST,
  "file_path = os.path.join(self._directory, normalized)",
  "file_path = self._directory + normalized")
M('c16-renormalise-after-guards', 'C16', 'R1', ST,
  """        if self._fallback_filename is None:
            fh, st = _open_file(file_path)
""", """        file_path = os.path.join(file_path, req.get_param('v') or '')
        if self._fallback_filename is None:
            fh, st = _open_file(file_path)
""")
M('c16-guard-only-without-fallback', 'C16', 'R1', ST,
  "if '..' in file_path or not file_path.startswith(self._directory):",
  "if self._fallback_filename is None and ('..' in file_path or not file_path.startswith(self._directory)):")

# ---------------------------------------------------------------- R2 ownership
M('c16-open-in-call-directly', 'C16', 'R2', ST,
  """        if self._fallback_filename is None:
            fh, st = _open_file(file_path)
""", """        if self._fallback_filename is None:
            fh = io.open(req.path[1:], 'rb')
            st = os.fstat(fh.fileno())
""")
M('c16-second-caller-of-open-file', 'C16', 'R2', ST,
  """    def match(self, path: str) -> bool:
        \"\"\"Check whether the given path matches this route.\"\"\"
""", """    def match(self, path: str) -> bool:
        \"\"\"Check whether the given path matches this route.\"\"\"
        try:
            _open_file(path)[0].close()
        except falcon.HTTPNotFound:
            pass
""")
M('c16-directory-rewritten-per-request', 'C16', 'R2', ST,
  """        without_prefix = req.path[len(self._prefix) :]
""", """        without_prefix = req.path[len(self._prefix) :]
        if req.get_param('root'):
            self._directory = req.get_param('root')
""", also=('C19',))
M('c16-directory-not-normalised', 'C16', 'R2', ST,
  "self._directory = os.path.normpath(directory)", "self._directory = str(directory)")
M('c16-relative-directory-accepted', 'C16', 'R2', ST,
  """        if not os.path.isabs(self._directory):
            raise ValueError('directory must be an absolute path')
""", """        if not os.path.isabs(self._directory):
            pass
""")
M('c16-fallback-swapped-at-request-time', 'C16', 'R2', ST,
  """                fh, st = _open_file(self._fallback_filename)
                file_path = self._fallback_filename
""", """                self._fallback_filename = file_path + '.default'
                fh, st = _open_file(self._fallback_filename)
                file_path = self._fallback_filename
""", also=('C19',))

# ---------------------------------------------------------------- R3 range arithmetic
M('c16-length-off-by-one', 'C16', 'R3', ST,
  "    length = end - start + 1\n", "    length = end - start\n")
M('c16-end-clamped-to-size', 'C16', 'R3', ST,
  "    end = min(end, size - 1)\n", "    end = min(end, size)\n")
M('c16-416-boundary', 'C16', 'R3', ST,
  "    if start >= size:\n", "    if start > size:\n")
M('c16-416-reports-start', 'C16', 'R3', ST,
  "raise falcon.HTTPRangeNotSatisfiable(size)", "raise falcon.HTTPRangeNotSatisfiable(start)")
M('c16-seek-off-by-one', 'C16', 'R3', ST,
  "    fh.seek(start)\n", "    fh.seek(start + 1)\n")
M('c16-suffix-not-clamped', 'C16', 'R3', ST,
  "        start = max(start, -size)\n", "")
# seek() "already returns the absolute position": relies on BytesIO clamping at 0; a real file raises (s4-c16-3)
M('c16-suffix-start-from-seek-result', 'C16', 'R3', ST,
  """        start = max(start, -size)
        fh.seek(start, os.SEEK_END)
        # NOTE(vytas): Wrap in order to prevent sendfile from being used, as
        #   its implementation was found to be buggy in many popular WSGI
        #   servers for open files with a non-zero offset.
        return _BoundedFile(fh, -start), -start, (size + start, size - 1, size)
""", """        start = fh.seek(start, os.SEEK_END)
        length = size - start
        return _BoundedFile(fh, length), length, (start, size - 1, size)
""")
# same, reading the position back with tell(): the result is opaque to the evaluator, the unclamped seek is what is reported
M('c16-suffix-start-from-tell', 'C16', 'R3', ST,
  """        start = max(start, -size)
        fh.seek(start, os.SEEK_END)
        # NOTE(vytas): Wrap in order to prevent sendfile from being used, as
        #   its implementation was found to be buggy in many popular WSGI
        #   servers for open files with a non-zero offset.
        return _BoundedFile(fh, -start), -start, (size + start, size - 1, size)
""", """        fh.seek(start, 2)
        start = fh.tell()
        length = size - start
        return _BoundedFile(fh, length), length, (start, size - 1, size)
""")
# the clamp is applied after the seek: the numbers reported are right, the seek itself may raise
M('c16-suffix-clamped-after-seek', 'C16', 'R3', ST,
  """        start = max(start, -size)
        fh.seek(start, os.SEEK_END)
""", """        fh.seek(start, os.SEEK_END)
        start = max(start, -size)
""")
# clamped from the wrong side
M('c16-suffix-clamped-with-min', 'C16', 'R3', ST,
  "        start = max(start, -size)\n", "        start = min(start, -size)\n")
M('c16-suffix-range-reports-wrong-first', 'C16', 'R3', ST,
  "return _BoundedFile(fh, -start), -start, (size + start, size - 1, size)",
  "return _BoundedFile(fh, -start), -start, (size + start + 1, size - 1, size)")
M('c16-open-ended-length', 'C16', 'R3', ST,
  "        length = size - start\n", "        length = size - start - 1\n")
M('c16-bound-differs-from-length', 'C16', 'R3', ST,
  "    return _BoundedFile(fh, length), length, (start, end, size)",
  "    return _BoundedFile(fh, length + 1), length, (start, end, size)")
M('c16-zero-byte-range-honoured', 'C16', 'R3', ST,
  """    if size == 0:
        # NOTE(tipabu)""", """    if size < 0:
        # NOTE(tipabu)""")
M('c16-unranged-wrapped-length', 'C16', 'R3', ST,
  "        return fh, size, None\n", "        return fh, size - 1, None\n")
M('c16-bounded-read-max', 'C16', 'R3', ST,
  "size = min(size, self.remaining)", "size = max(size, self.remaining)")
M('c16-bounded-read-unclamped-negative', 'C16', 'R3', ST,
  """        if size is None or size < 0:
            size = self.remaining
""", """        if size is None or size < 0:
            size = -1
""")
M('c16-bounded-deducts-requested', 'C16', 'R3', ST,
  "self.remaining -= len(data)", "self.remaining -= size")
M('c16-bounded-budget-off-by-one', 'C16', 'R3', ST,
  "        self.remaining = length\n", "        self.remaining = length + 1\n")

# ---------------------------------------------------------------- R4 status wiring
M('c16-304-after-stream', 'C16', 'R4', ST,
  """        resp.last_modified = last_modified
        if req.if_modified_since is not None and last_modified <= req.if_modified_since:
            resp.status = falcon.HTTP_304
            return

""", """        resp.last_modified = last_modified
        resp.set_stream(fh, st.st_size)
        if req.if_modified_since is not None and last_modified <= req.if_modified_since:
            resp.status = falcon.HTTP_304
            return

""")
M('c16-304-falls-through', 'C16', 'R4', ST,
  """            resp.status = falcon.HTTP_304
            return
""", """            resp.status = falcon.HTTP_304
""")
M('c16-206-unconditional', 'C16', 'R4', ST,
  """        if content_range:
            resp.status = falcon.HTTP_206
            resp.content_range = content_range
""", """        resp.status = falcon.HTTP_206
        if content_range:
            resp.content_range = content_range
""")
M('c16-content-range-only-when-downloadable', 'C16', 'R4', ST,
  """        if content_range:
            resp.status = falcon.HTTP_206
            resp.content_range = content_range
""", """        if content_range:
            resp.status = falcon.HTTP_206
            if self._downloadable:
                resp.content_range = content_range
""")
M('c16-content-length-from-stat', 'C16', 'R4', ST,
  "resp.set_stream(stream, length)", "resp.set_stream(stream, st.st_size)")
M('c16-accept-ranges-only-for-ranges', 'C16', 'R4', ST,
  """        resp.accept_ranges = 'bytes'

""", """        if req_range:
            resp.accept_ranges = 'bytes'

""")
M('c16-stream-only-without-range', 'C16', 'R4', ST,
  "        resp.set_stream(stream, length)\n", "        if not content_range:\n            resp.set_stream(stream, length)\n")

# ---------------------------------------------------------------- R8 the opened string is the validated one
M2('c16-open-file-nfc-normalises', 'C16', 'R8', [
    {'file': ST, 'old': "import re\n", 'new': "import re\nimport unicodedata\n"},
    {'file': ST, 'old': """    fh: Optional[io.BufferedReader] = None
    try:
        fh = io.open(file_path, 'rb')
""", 'new': """    file_path = unicodedata.normalize('NFC', os.fspath(file_path))
    fh: Optional[io.BufferedReader] = None
    try:
        fh = io.open(file_path, 'rb')
"""}])
M('c16-open-file-realpath', 'C16', 'R8', ST,
  "        fh = io.open(file_path, 'rb')\n", "        fh = io.open(os.path.realpath(file_path), 'rb')\n")
M('c16-open-file-lowercases-local', 'C16', 'R8', ST,
  "        fh = io.open(file_path, 'rb')\n", "        name = str(file_path).lower()\n        fh = io.open(name, 'rb')\n")
M('c16-open-file-strips-trailing-slash', 'C16', 'R8', ST,
  "        fh = io.open(file_path, 'rb')\n", "        fh = io.open(file=os.fspath(file_path).rstrip('/'), mode='rb')\n")
# caller side: the value handed over is not the value the guards validated (R1)
M2('c16-caller-normalises-at-the-sink', 'C16', 'R1', [
    {'file': ST, 'old': "import re\n", 'new': "import re\nimport unicodedata\n"},
    {'file': ST, 'old': """        if self._fallback_filename is None:
            fh, st = _open_file(file_path)
""", 'new': """        if self._fallback_filename is None:
            fh, st = _open_file(unicodedata.normalize('NFC', file_path))
"""}])
M('c16-caller-rebinds-after-guards', 'C16', 'R1', ST,
  """        if self._fallback_filename is None:
            fh, st = _open_file(file_path)
""", """        file_path = file_path.rstrip('.')
        if self._fallback_filename is None:
            fh, st = _open_file(file_path)
""")

# ---------------------------------------------------------------- R9 validator in whole seconds (wave 6)
M('c16-last-modified-rounded', 'C16', 'R9', ST,
  """        last_modified = datetime.fromtimestamp(st.st_mtime, timezone.utc)
""", """        last_modified = datetime.fromtimestamp(round(st.st_mtime), timezone.utc)
""")
M('c16-last-modified-keeps-microseconds', 'C16', 'R9', ST,
  """        last_modified = last_modified.replace(microsecond=0)
""", "")
M('c16-last-modified-half-up', 'C16', 'R9', ST,
  """        last_modified = datetime.fromtimestamp(st.st_mtime, timezone.utc)
""", """        last_modified = datetime.fromtimestamp(int(st.st_mtime + 0.5), timezone.utc)
""")
M('c16-truncated-header-raw-comparison', 'C16', 'R9', ST,
  """        last_modified = last_modified.replace(microsecond=0)
        resp.last_modified = last_modified
""", """        resp.last_modified = last_modified.replace(microsecond=0)
""")

# ---- wave 7
# R5 (shared with C02 R2): the rebuild of the combined table is evaluated for both values of the option
M('c16-rebuild-reverse-whole-table-static-first', 'C16', 'R5', 'falcon/app.py',
  """        if self._sink_before_static_route:
            self._sink_and_static_routes = tuple(self._sinks + self._static_routes)  # type: ignore[operator]
        else:
            self._sink_and_static_routes = tuple(self._static_routes + self._sinks)  # type: ignore[operator]
""", """        routes = self._sinks + self._static_routes  # type: ignore[operator]
        if not self._sink_before_static_route:
            # NOTE: Static routes take precedence over sinks in this mode.
            routes.reverse()
        self._sink_and_static_routes = tuple(routes)
""")
M('c16-rebuild-reversed-static-when-static-first', 'C16', 'R5', 'falcon/app.py',
  """        else:
            self._sink_and_static_routes = tuple(self._static_routes + self._sinks)  # type: ignore[operator]
""", """        else:
            self._sink_and_static_routes = (*reversed(self._static_routes), *self._sinks)
""")

# R10: the bounds of a Range spec are ordered as numbers
M('c16-range-inverted-check-on-text', 'C16', 'R10', 'falcon/request.py',
  """                first_num, last_num = (int(first), int(last))
                if last_num < first_num:
                    raise ValueError()
""", """                if last < first:
                    raise ValueError()
                first_num, last_num = (int(first), int(last))
""", also=('C09',))
M('c16-range-order-check-on-text-negated', 'C16', 'R10', 'falcon/request.py',
  """                first_num, last_num = (int(first), int(last))
                if last_num < first_num:
                    raise ValueError()
""", """                if not first <= last:
                    raise ValueError()
                first_num, last_num = (int(first), int(last))
""", also=('C09',))
M('c16-range-compares-raw-names-after-conversion', 'C16', 'R10', 'falcon/request.py',
  """                if last_num < first_num:
                    raise ValueError()
""", """                if last.strip() < first.strip():
                    raise ValueError()
""", also=('C09',))

# ---- wave 8
REQ = 'falcon/request.py'
# R3: a result without a content range only for "no Range" / "empty file" - every satisfiable form is a 206
M('c16-open-ended-whole-file-answered-200', 'C16', 'R3', ST,
  """    fh.seek(start)
    if end == -1:
""", """    if start == 0 and end == -1:
        return fh, size, None

    fh.seek(start)
    if end == -1:
""")
M('c16-closed-whole-file-answered-200', 'C16', 'R3', ST,
  """    if start >= size:
        fh.close()
""", """    if start == 0 and end >= size - 1:
        return fh, size, None
    if start >= size:
        fh.close()
""")
M('c16-suffix-whole-file-answered-200', 'C16', 'R3', ST,
  "        start = max(start, -size)\n",
  "        start = max(start, -size)\n        if start == -size:\n            return fh, size, None\n")
# R4 / R9: the 304 decision does not read the server's clock
_IMS = """        if req.if_modified_since is not None and last_modified <= req.if_modified_since:
            resp.status = falcon.HTTP_304
            return
"""
M('c16-future-if-modified-since-invalid', 'C16', 'R4', ST, _IMS,
  """        if_modified_since = req.if_modified_since
        if (
            if_modified_since is not None
            and if_modified_since <= datetime.now(timezone.utc)
            and last_modified <= if_modified_since
        ):
            resp.status = falcon.HTTP_304
            return
""")
M('c16-future-if-modified-since-withdrawn', 'C16', 'R9', ST, _IMS,
  """        ims = req.if_modified_since
        if ims is not None and ims > datetime.now(timezone.utc):
            ims = None
        if ims is not None and last_modified <= ims:
            resp.status = falcon.HTTP_304
            return
""")
M2('c16-no-304-for-just-modified-file', 'C16', 'R4', [
    {'file': ST, 'old': "import re\n", 'new': "import re\nimport time\n"},
    {'file': ST, 'old': _IMS, 'new': """        if req.if_modified_since is not None and last_modified <= req.if_modified_since and st.st_mtime < time.time() - 1:
            resp.status = falcon.HTTP_304
            return
"""}])
# R11: undecodable request-path bytes arrive as U+FFFD, which the route's disallowed-characters test rejects
_DEC = "            path = path.encode('iso-8859-1').decode('utf-8', 'replace')\n"
M('c16-undecodable-path-kept-as-latin1', 'C16', 'R11', REQ, _DEC,
  """            try:
                path = path.encode('iso-8859-1').decode('utf-8')
            except UnicodeDecodeError:
                pass
""", also=('C06',))
M('c16-undecodable-path-bytes-dropped', 'C16', 'R11', REQ, _DEC,
  "            path = path.encode('iso-8859-1').decode('utf-8', 'ignore')\n", also=('C06',))
M('c16-undecodable-path-raises', 'C16', 'R11', REQ, _DEC,
  "            path = path.encode('iso-8859-1').decode('utf-8')\n", also=('C06', 'C04'))
M('c16-disallowed-chars-pattern-without-fffd', 'C16', 'R11', ST, "\\x9f\\ufffd~", "\\x9f~")
M('c16-disallowed-chars-test-skipped-with-fallback', 'C16', 'R11', ST,
  "            or self._DISALLOWED_CHARS_PATTERN.search(without_prefix)\n",
  "            or (self._fallback_filename is None and self._DISALLOWED_CHARS_PATTERN.search(without_prefix))\n")

# ---------------------------------------------------- R12 Range decision table (shared with C09 R6; seeded change s9-c16-3)
M('c16-range-one-byte-rejected', 'C16', 'R12', REQ, "                if last_num < first_num:", "                if last_num <= first_num:", also=('C09',))
M('c16-range-one-byte-rejected-swapped-operands', 'C16', 'R12', REQ, "                if last_num < first_num:", "                if first_num >= last_num:", also=('C09',))
M('c16-range-open-ended-last-zero', 'C16', 'R12', REQ, "first_num, last_num = (int(first), -1)", "first_num, last_num = (int(first), 0)", also=('C09',))
# ---------------------------------------------------- R13 the range unit is the whole text before the first '=' (seeded change s9-c16-1)
_UNIT = "        if value and '=' in value:\n            unit, sep, req_range = value.partition('=')\n            return unit\n"
M('c16-range-unit-bytes-prefix-fast-path', 'C16', 'R13', REQ, _UNIT,
  "        if value.startswith('bytes'):\n            return 'bytes'\n\n" + _UNIT)
M('c16-range-unit-bytes-substring-fast-path', 'C16', 'R13', REQ, _UNIT,
  "        if 'bytes' in value:\n            return 'bytes'\n\n" + _UNIT)
M('c16-range-unit-prefix-test-on-unit', 'C16', 'R13', REQ, _UNIT,
  "        if value and '=' in value:\n            unit, sep, req_range = value.partition('=')\n            if unit.startswith('bytes'):\n"
  "                return 'bytes'\n            return unit\n")
M('c16-range-unit-before-last-separator', 'C16', 'R13', REQ, _UNIT,
  "        if value and '=' in value:\n            unit, sep, req_range = value.rpartition('=')\n            return unit\n")
M('c16-static-unit-prefix-test', 'C16', 'R13', ST, "req.range if req.range_unit == 'bytes' else None", "req.range if (req.range_unit or '').startswith('bytes') else None")
M('c16-static-unit-never-consulted', 'C16', 'R13', ST, "req.range if req.range_unit == 'bytes' else None", "req.range")
# ---------------------------------------------------- R14 a suffix range `-N` is accepted only for N > 0 (seeded change s10-c16-2)
_SUFFIX = "                first_num, last_num = (-int(last), -1)\n                if first_num >= 0:\n                    raise ValueError()\n"
M('c16-range-suffix-sign-checked-before-conversion', 'C16', 'R14', REQ, _SUFFIX,
  "                if last[0] in '+-':\n                    raise ValueError()\n                first_num, last_num = (-int(last), -1)\n")
M('c16-range-suffix-zero-accepted', 'C16', 'R14', REQ, "                if first_num >= 0:\n", "                if first_num > 0:\n")
M('c16-range-suffix-unchecked', 'C16', 'R14', REQ, _SUFFIX, "                first_num, last_num = (-int(last), -1)\n")
M('c16-range-suffix-refused', 'C16', 'R14', REQ, "                if first_num >= 0:\n", "                if first_num <= 0:\n")
# negative controls verified by hand with --root (silent): see fixer report (wave 9)

# ---------------------------------------------------- "refactoring + break": the behaviour-preserving extractions of the second preserving
# wave (k2-c16-2: the sanitisation / containment block of StaticRoute.__call__ becomes StaticRoute._resolve_path; k2-c06-2: the trailing-slash
# block of Request.__init__ becomes request_helpers._apply_trailing_slash_option) are read through -- plus a real mistake inside the helper
_K2_HEAD = '''    def __call__(self, req: Request, resp: Response, **kw: Any) -> None:
        """Resource responder for this route."""
        assert not kw
        if req.method == 'OPTIONS':
            # it's likely a CORS request. Set the allow header to the appropriate value.
            resp.set_header('Allow', 'GET')
            resp.set_header('Content-Length', '0')
            return

        without_prefix = req.path[len(self._prefix) :]

'''
_K2_TAIL = '''        if '..' in file_path or not file_path.startswith(self._directory):
            raise falcon.HTTPNotFound()

        if self._fallback_filename is None:
'''
_K2_NEW_CALL = '''        return file_path

    def __call__(self, req: Request, resp: Response, **kw: Any) -> None:
        """Resource responder for this route."""
        assert not kw
        if req.method == 'OPTIONS':
            resp.set_header('Allow', 'GET')
            resp.set_header('Content-Length', '0')
            return

        file_path = self._resolve_path(req.path[len(self._prefix) :])

        if self._fallback_filename is None:
'''


def _k2_resolve_path(*more, tail=_K2_TAIL[:_K2_TAIL.index('        if self._fallback_filename is None:')], call=_K2_NEW_CALL):
    return [{'file': ST, 'old': _K2_HEAD, 'new': '    def _resolve_path(self, without_prefix: str) -> str:\n'},
            {'file': ST, 'old': _K2_TAIL, 'new': tail + call}] + list(more)


M2('c16-k2-resolve-path-chars-test-skipped-with-fallback', 'C16', 'R11', _k2_resolve_path(
    {'file': ST, 'old': "            or self._DISALLOWED_CHARS_PATTERN.search(without_prefix)\n",
     'new': "            or (self._fallback_filename is None and self._DISALLOWED_CHARS_PATTERN.search(without_prefix))\n"}))
M2('c16-k2-resolve-path-returns-early-for-dotfiles', 'C16', None, _k2_resolve_path(
    {'file': ST, 'old': "        # NOTE(kgriffs): Check surrounding whitespace and strip trailing\n",
     'new': "        if without_prefix.startswith('.well-known/'):\n            return os.path.join(self._directory, without_prefix)\n"
            "        # NOTE(kgriffs): Check surrounding whitespace and strip trailing\n"}))
M2('c16-k2-resolve-path-drops-normalized-prefix-guard', 'C16', 'R1', _k2_resolve_path(
    {'file': ST, 'old': "        if normalized.startswith(self._DISALLOWED_NORMALIZED_PREFIXES):\n            raise falcon.HTTPNotFound()\n\n", 'new': ''},
    tail=''))
M2('c16-k2-resolve-path-result-not-the-opened-path', 'C16', 'R1', _k2_resolve_path(
    call=_K2_NEW_CALL.replace("        file_path = self._resolve_path(req.path[len(self._prefix) :])\n",
                              "        remainder = req.path[len(self._prefix) :]\n        self._resolve_path(remainder)\n"
                              "        file_path = os.path.join(self._directory, remainder)\n")))
_K2_SLASH_OLD = '''        if (
            self.options.strip_url_path_trailing_slash
            and len(path) != 1
            and path.endswith('/')
        ):
            self.path: str = path[:-1]
        else:
            self.path = path
'''
_K2_SLASH_NEW = '''        self.path: str = helpers._apply_trailing_slash_option(
            path, self.options.strip_url_path_trailing_slash
        )
'''
_K2_SLASH_ANCHOR = "# NOTE(kgriffs): Going forward we should privatize helpers, as done here. We\n"


def _k2_slash_helper(body):
    return [{'file': REQ, 'old': _K2_SLASH_OLD, 'new': _K2_SLASH_NEW},
            {'file': 'falcon/request_helpers.py', 'old': _K2_SLASH_ANCHOR,
             'new': 'def _apply_trailing_slash_option(path: str, strip_trailing_slash: bool) -> str:\n' + body + '\n\n' + _K2_SLASH_ANCHOR}]


M2('c16-k2-slash-helper-drops-replacement-characters', 'C16', 'R11', _k2_slash_helper(
    "    path = path.replace('\\ufffd', '')\n    if strip_trailing_slash and len(path) != 1 and path.endswith('/'):\n        return path[:-1]\n\n    return path\n"),
    also=('C06',))
# the decode step moved into a module-level helper whose error policy is a private module-level literal handed in as a default: 'ignore' drops the bytes
_K2_DEC_HELPER = '''_PATH_ERRORS = 'ignore'


def _decode_path(path: str, errors: str = _PATH_ERRORS) -> str:
    if path.isascii():
        return path
    return path.encode('iso-8859-1').decode('utf-8', errors)


'''
M2('c16-k2-decode-helper-ignores-undecodable-bytes', 'C16', 'R11',
   [{'file': REQ, 'old': "        if not path.isascii():\n" + _DEC, 'new': "        path = helpers._decode_path(path)\n"},
    {'file': 'falcon/request_helpers.py', 'old': _K2_SLASH_ANCHOR, 'new': _K2_DEC_HELPER + _K2_SLASH_ANCHOR}], also=('C06', 'C04'))
# (C04 R6 / C06 R2 do not look through the helper and report the .encode() in it as able to escape: their reading, not part of this break)
# the match object kept in a local and tested the wrong way round (`is None` rejects every clean name and lets the dirty ones through)
M2('c16-chars-match-local-tested-inverted', 'C16', 'R11',
   [{'file': ST, 'old': "        without_prefix = req.path[len(self._prefix) :]\n",
     'new': "        without_prefix = req.path[len(self._prefix) :]\n        bad = self._DISALLOWED_CHARS_PATTERN.search(without_prefix)\n"},
    {'file': ST, 'old': "            or self._DISALLOWED_CHARS_PATTERN.search(without_prefix)\n", 'new': "            or bad is None\n"}])
# k2-c16-3 reads the unit as the slice `value[: value.index('=')]` (first '='): the same slice up to the LAST '=' is the s9 mistake again
M('c16-k2-range-unit-slice-before-last-separator', 'C16', 'R13', REQ, _UNIT,
  "        if value and '=' in value:\n            return value[: value.rindex('=')]\n")

# ---- wave 11
# R3 exact cells: only the parser's marker -1 means "no last-byte-pos"; last-byte-pos 0 (`bytes=0-0`) is a bounded range (s11-c16-2)
_TAIL = """    fh.seek(start)
    if end == -1:
        # NOTE(vytas): Wrap in order to prevent sendfile from being used, as
        #   its implementation was found to be buggy in many popular WSGI
        #   servers for open files with a non-zero offset.
        length = size - start
        return _BoundedFile(fh, length), length, (start, size - 1, size)

    end = min(end, size - 1)
    length = end - start + 1
    return _BoundedFile(fh, length), length, (start, end, size)
"""
_MERGED = """    fh.seek(start)
    last = size - 1
    end = %s
    length = end - start + 1
    return _BoundedFile(fh, length), length, (start, end, size)
"""
M('c16-merged-tail-open-end-test-gt0', 'C16', 'R3', ST, _TAIL, _MERGED % 'min(end, last) if end > 0 else last')
M('c16-merged-tail-open-end-test-truthy', 'C16', 'R3', ST, _TAIL, _MERGED % 'min(end, last) if end else last')
M('c16-merged-tail-open-end-test-le0', 'C16', 'R3', ST, _TAIL, _MERGED % 'last if end <= 0 else min(end, last)')
M('c16-open-end-branch-taken-for-zero', 'C16', 'R3', ST, "    fh.seek(start)\n    if end == -1:\n", "    fh.seek(start)\n    if end < 1:\n")
M('c16-bounded-branch-only-strictly-inside', 'C16', 'R3', ST, _TAIL, """    fh.seek(start)
    if 0 < end < size - 1:
        length = end - start + 1
        return _BoundedFile(fh, length), length, (start, end, size)
    length = size - start
    return _BoundedFile(fh, length), length, (start, size - 1, size)
""")
