"""Mutation operators for C17 (WebSocket state machine)."""

from .mutants import M, M2

WS = 'falcon/asgi/ws.py'
APP = 'falcon/asgi/app.py'

# ------------------------------------------------------------------ R1
M('c17-send-text-drop-require-accepted', 'C17', 'R1', WS,
  """        self._require_accepted()
        # NOTE(kgriffs): We have to check ourselves because some ASGI
        #   servers are not very strict which can lead to hard-to-debug
        #   errors.
        if not isinstance(payload, str):
""", """        # NOTE(kgriffs): We have to check ourselves because some ASGI
        #   servers are not very strict which can lead to hard-to-debug
        #   errors.
        if not isinstance(payload, str):
""")
M('c17-receive-data-drop-require-accepted', 'C17', 'R1', WS,
  """        self._require_accepted()

        event = await self._receive()

        # PERF(kgriffs): When we normally expect the key to be
        #   present, EAFP is faster than get()
""", """        event = await self._receive()

        # PERF(kgriffs): When we normally expect the key to be
        #   present, EAFP is faster than get()
""")
M('c17-send-media-drop-require-accepted', 'C17', 'R1', WS,
  """        self._require_accepted()

        if payload_type is WebSocketPayloadType.TEXT:
""", """        if payload_type is WebSocketPayloadType.TEXT:
""")
M('c17-require-accepted-ignores-handshake', 'C17', 'R1', WS,
  """        if self._state == _WebSocketState.HANDSHAKE:
            raise errors.OperationNotAllowed(
                'WebSocket connection has not yet been accepted'
            )
        elif self._state == _WebSocketState.CLOSED:
""", """        if self._state == _WebSocketState.CLOSED:
""")
M('c17-require-accepted-wrong-error', 'C17', 'R1', WS,
  """        elif self._state == _WebSocketState.CLOSED:
            raise errors.WebSocketDisconnected(self._close_code)

    def _translate""", """        elif self._state == _WebSocketState.CLOSED:
            raise errors.OperationNotAllowed('closed')

    def _translate""")
M('c17-accepted-before-send', 'C17', 'R1', WS,
  """        await self._send(event)
        self._state = _WebSocketState.ACCEPTED
""", """        self._state = _WebSocketState.ACCEPTED
        await self._send(event)
""")
M('c17-accept-state-never-set', 'C17', 'R1', WS,
  """        await self._send(event)
        self._state = _WebSocketState.ACCEPTED
""", """        await self._send(event)
""")
M('c17-accept-twice-allowed', 'C17', 'R1', WS,
  """        if self._state != _WebSocketState.HANDSHAKE:
            raise errors.OperationNotAllowed(
                'accept() may only be called once on an open WebSocket connection'
            )

""", "")
M('c17-closed-before-send', 'C17', 'R1', WS,
  """        await self._asgi_send(response)

        self._state = _WebSocketState.CLOSED
        self._close_code = code
""", """        self._state = _WebSocketState.CLOSED
        self._close_code = code

        await self._asgi_send(response)
""")
M('c17-close-state-never-set', 'C17', 'R1', WS,
  """        await self._asgi_send(response)

        self._state = _WebSocketState.CLOSED
        self._close_code = code
""", """        await self._asgi_send(response)

        self._close_code = code
""")
M('c17-close-twice-sends-twice', 'C17', 'R1', WS,
  """        if self.closed:
            return

        response = {'type': EventType.WS_CLOSE, 'code': code}
""", """        response = {'type': EventType.WS_CLOSE, 'code': code}
""")
M('c17-closed-property-ignores-state', 'C17', 'R1', WS,
  """        return (
            self._state == _WebSocketState.CLOSED
            or self._buffered_receiver.client_disconnected
        )
""", """        return self._buffered_receiver.client_disconnected
""")
M('c17-send-ignores-client-disconnect', 'C17', 'R1', WS,
  """        if self._buffered_receiver.client_disconnected:
            self._state = _WebSocketState.CLOSED
            self._close_code = self._buffered_receiver.client_disconnected_code

        if self._state == _WebSocketState.CLOSED:
""", """        if self._state == _WebSocketState.CLOSED:
""")
M('c17-send-disconnect-not-refused', 'C17', 'R1', WS,
  """        if self._state == _WebSocketState.CLOSED:
            raise errors.WebSocketDisconnected(self._close_code)

        try:
            await self._asgi_send(msg)
""", """        try:
            await self._asgi_send(msg)
""")
M('c17-receive-disconnect-state-kept', 'C17', 'R1', WS,
  """            self._state = _WebSocketState.CLOSED
            self._close_code = event.get('code', WSCloseCode.NORMAL)
""", """            self._close_code = event.get('code', WSCloseCode.NORMAL)
""")
M('c17-receive-disconnect-returned', 'C17', 'R1', WS,
  """        if event_type != EventType.WS_RECEIVE:
            # NOTE(kgriffs): Based on the ASGI spec""", """        if event_type == EventType.WS_CONNECT:
            # NOTE(kgriffs): Based on the ASGI spec""")
M('c17-new-public-op-unguarded', 'C17', 'R1', WS,
  """    async def _send(self, msg: AsgiSendMsg) -> None:
""", """    async def send_ping(self) -> None:
        await self._asgi_send({'type': EventType.WS_SEND, 'text': ''})

    async def _send(self, msg: AsgiSendMsg) -> None:
""")

# accept/close: the promised state only on the normal continuation of the send (seeded s2-c17-1 and variants)
M('c17-close-state-in-finally', 'C17', 'R1', WS,
  """        await self._asgi_send(response)

        self._state = _WebSocketState.CLOSED
        self._close_code = code
""", """        try:
            await self._asgi_send(response)
        finally:
            self._state = _WebSocketState.CLOSED
            self._close_code = code
""")
M('c17-close-state-in-catch-all', 'C17', 'R1', WS,
  """        await self._asgi_send(response)

        self._state = _WebSocketState.CLOSED
        self._close_code = code
""", """        try:
            await self._asgi_send(response)
        except Exception:
            self._state = _WebSocketState.CLOSED
            self._close_code = code
            raise

        self._state = _WebSocketState.CLOSED
        self._close_code = code
""")
M('c17-accept-state-in-finally', 'C17', 'R1', WS,
  """        await self._send(event)
        self._state = _WebSocketState.ACCEPTED
""", """        try:
            await self._send(event)
        finally:
            self._state = _WebSocketState.ACCEPTED
""")
M('c17-accept-state-on-send-error', 'C17', 'R1', WS,
  """        await self._send(event)
        self._state = _WebSocketState.ACCEPTED
""", """        try:
            await self._send(event)
        except ValueError:
            self._state = _WebSocketState.ACCEPTED
            raise
        self._state = _WebSocketState.ACCEPTED
""")

# _send(): a failed ASGI send marks the socket CLOSED only when the error was recognised as a connection loss
# (seeded s4-c17-1 = two cooperating edits; EACH half alone is already a break - checked with the seed's demo.py on a
# pure-Python copy: half A hands every error back, so `if translated_ex:` always passes; half B marks CLOSED
# unconditionally and then does `raise None from ex` - so both halves are operators of their own).
_SEND_GUARDED = """            if translated_ex:
                # NOTE(vytas): Mark WebSocket as closed if we catch an error
                #   upon sending. This is useful when not using the buffered
                #   receiver, and not receiving anything at the given moment.
                self._state = _WebSocketState.CLOSED
                if isinstance(translated_ex, errors.WebSocketDisconnected):
                    self._close_code = translated_ex.code

"""
_SEND_HOISTED = """
            # NOTE(vytas): Mark WebSocket as closed if we catch an error
            #   upon sending. This is useful when not using the buffered
            #   receiver, and not receiving anything at the given moment.
            self._state = _WebSocketState.CLOSED
            if isinstance(translated_ex, errors.WebSocketDisconnected):
                self._close_code = translated_ex.code

            if translated_ex is not ex:
"""
_TRANSLATE_TAIL = "            return errors.WebSocketDisconnected(close_code)\n\n        return None\n"
M2('c17-send-any-error-closes', 'C17', 'R1', [
    {'file': WS, 'old': _SEND_GUARDED, 'new': _SEND_HOISTED},
    {'file': WS, 'old': _TRANSLATE_TAIL, 'new': "            return errors.WebSocketDisconnected(close_code)\n\n        return ex\n"},
])
M('c17-send-closed-hoisted-out-of-guard', 'C17', 'R1', WS, _SEND_GUARDED, _SEND_HOISTED)
M('c17-translate-never-none', 'C17', 'R1', WS, _TRANSLATE_TAIL,
  "            return errors.WebSocketDisconnected(close_code)\n\n        return ex\n")
M('c17-translate-unknown-error-is-disconnect', 'C17', 'R1', WS, _TRANSLATE_TAIL,
  "            return errors.WebSocketDisconnected(close_code)\n\n        return errors.WebSocketDisconnected()\n")
M('c17-send-closed-before-classification', 'C17', 'R1', WS,
  "            translated_ex = self._translate_webserver_error(ex)\n",
  "            self._state = _WebSocketState.CLOSED\n            translated_ex = self._translate_webserver_error(ex)\n")
M('c17-send-closed-guard-negated', 'C17', 'R1', WS,
  """            if translated_ex:
                # NOTE(vytas): Mark WebSocket as closed if we catch an error""",
  """            if translated_ex is None:
                self._state = _WebSocketState.CLOSED
            if translated_ex:
                # NOTE(vytas): Mark WebSocket as closed if we catch an error""")

# ------------------------------------------------------------------ R2
M('c17-handler-uses-raw-send','C17', 'R2', APP,
  """                error,
                code,
            )
            await ws.close(code)
""", """                error,
                code,
            )
            await ws._asgi_send({'type': EventType.WS_CLOSE, 'code': code})
""", also=('C18',))
M('c17-handle-ws-direct-send-after-ctor', 'C17', 'R2', APP,
  """            await on_websocket(req, web_socket, **params)
            await web_socket.close()
""", """            await on_websocket(req, web_socket, **params)
            await send({'type': EventType.WS_CLOSE, 'code': WSCloseCode.NORMAL})
""", also=('C18',))
M('c17-refusal-sends-accept', 'C17', 'R2', APP,
  "            response = {'type': EventType.WS_CLOSE, 'code': WSCloseCode.SERVER_ERROR}",
  "            response = {'type': EventType.WS_ACCEPT, 'code': WSCloseCode.SERVER_ERROR}")

# ------------------------------------------------------------------ R3
M('c17-handle-ws-drop-close', 'C17', 'R3', APP,
  """            await on_websocket(req, web_socket, **params)
            await web_socket.close()
""", """            await on_websocket(req, web_socket, **params)
""", also=('C18',))
M('c17-handle-ws-close-only-if-unaccepted', 'C17', 'R3', APP,
  """            await on_websocket(req, web_socket, **params)
            await web_socket.close()
""", """            await on_websocket(req, web_socket, **params)
            if web_socket.unaccepted:
                await web_socket.close()
""", also=('C18',))
M('c17-handle-ws-except-narrowed', 'C17', 'R3', APP,
  """        except Exception as ex:
            if not await self._handle_exception(req, None, ex, params, ws=web_socket):
""", """        except HTTPError as ex:
            if not await self._handle_exception(req, None, ex, params, ws=web_socket):
""", also=('C18',))
M('c17-handle-ws-no-ws-to-handler', 'C17', 'R3', APP,
  "            if not await self._handle_exception(req, None, ex, params, ws=web_socket):",
  "            if not await self._handle_exception(req, None, ex, params):", also=('C18',))
M('c17-responder-outside-try', 'C17', 'R3', APP,
  """            await on_websocket(req, web_socket, **params)
            await web_socket.close()

        except Exception as ex:
            if not await self._handle_exception(req, None, ex, params, ws=web_socket):
                raise
""", """        except Exception as ex:
            if not await self._handle_exception(req, None, ex, params, ws=web_socket):
                raise
            return

        await on_websocket(req, web_socket, **params)
        await web_socket.close()
""", also=('C18',))
M('c17-http-error-handler-no-close', 'C17', 'R3', APP,
  """                error,
                code,
            )
            await ws.close(code)
""", """                error,
                code,
            )
""", also=('C18',))
M('c17-python-error-handler-no-cleanup', 'C17', 'R3', APP,
  """        elif ws:
            await self._ws_cleanup_on_error(ws)
        else:
            raise NotImplementedError('resp or ws expected')
""", """        elif ws:
            pass
        else:
            raise NotImplementedError('resp or ws expected')
""", also=('C18',))
M('c17-disconnected-handler-no-cleanup', 'C17', 'R3', APP,
  """            '[FALCON] WebSocket client disconnected with code %i', error.code
        )
        await self._ws_cleanup_on_error(ws)
""", """            '[FALCON] WebSocket client disconnected with code %i', error.code
        )
""", also=('C18',))
M('c17-cleanup-no-fallback', 'C17', 'R3', APP,
  """            if 'invalid close code' in str(ex).lower():
                await ws.close(_FALLBACK_WS_ERROR_CODE)
            else:
""", """            if 'invalid close code' in str(ex).lower():
                pass
            else:
""", also=('C18',))
M('c17-fallback-code-reserved', 'C17', 'R3', APP,
  "_FALLBACK_WS_ERROR_CODE = 3011", "_FALLBACK_WS_ERROR_CODE = 1005")
M('c17-close-rejection-message-changed', 'C17', 'R3', WS,
  "raise ValueError('Invalid close code. The value must be >= 1000')",
  "raise ValueError('Close code out of range. The value must be >= 1000')")
M('c17-status-mapping-offset', 'C17', 'R3', WS,
  "    return http_status + 3000", "    return http_status + 4000")
M('c17-status-handler-wrong-field', 'C17', 'R3', APP,
  "            code = http_status_to_ws_code(status.status_code)",
  "            code = http_status_to_ws_code(WSCloseCode.SERVER_ERROR)")
M('c17-handle-exception-drops-ws-kwarg', 'C17', 'R3', APP,
  """                if ws and 'ws' in get_argnames(err_handler):
                    kwargs['ws'] = ws
""", """                if ws and 'ws' in get_argnames(err_handler):
                    pass
""", also=('C18',))
M('c17-handle-exception-redispatch-no-ws', 'C17', 'R3', APP,
  "                await self._http_error_handler(req, resp, error, params, ws=ws)",
  "                await self._http_error_handler(req, resp, error, params)", also=('C18',))
M('c17-route-not-found-is-400', 'C17', 'R3', 'falcon/responders.py',
  """async def path_not_found_async(req: Request, resp: Response, **kwargs: Any) -> NoReturn:
    \"\"\"Raise 404 HTTPRouteNotFound error.\"\"\"
    raise HTTPRouteNotFound()
""", """async def path_not_found_async(req: Request, resp: Response, **kwargs: Any) -> NoReturn:
    \"\"\"Raise 404 HTTPRouteNotFound error.\"\"\"
    raise HTTPBadRequest()
""", also=('C02',))

# ------------------------------------------------------------------ R4
M('c17-code-interval-lets-1005-pass', 'C17', 'R4', WS,
  "elif 1015 <= code <= 1999 or 1004 <= code <= 1006:", "elif 1015 <= code <= 1999 or 1004 <= code <= 1004:")
M('c17-code-interval-lets-1015-pass', 'C17', 'R4', WS,
  "elif 1015 <= code <= 1999 or 1004 <= code <= 1006:", "elif 1015 < code <= 1999 or 1004 <= code <= 1006:")
M('c17-code-lower-bound-999', 'C17', 'R4', WS,
  "        elif code < 1000:", "        elif code < 999:")
M('c17-code-rejects-3000-range', 'C17', 'R4', WS,
  "elif 1015 <= code <= 1999 or 1004 <= code <= 1006:", "elif 1015 <= code <= 3999 or 1004 <= code <= 1006:")
M('c17-code-rejects-1011', 'C17', 'R4', WS,
  "elif 1015 <= code <= 1999 or 1004 <= code <= 1006:", "elif 1010 <= code <= 1999 or 1004 <= code <= 1006:")
M('c17-default-code-not-normal', 'C17', 'R4', WS,
  """        if code is None:
            code = WSCloseCode.NORMAL
""", """        if code is None:
            code = WSCloseCode.SERVER_ERROR
""")
M('c17-wire-code-constant', 'C17', 'R4', WS,
  "        response = {'type': EventType.WS_CLOSE, 'code': code}", "        response = {'type': EventType.WS_CLOSE, 'code': WSCloseCode.NORMAL}")
M('c17-reason-without-version-gate', 'C17', 'R4', WS,
  "        if reason and self._supports_reason:  # pragma: no py311 cover", "        if reason:  # pragma: no py311 cover")
M('c17-reason-gate-2-1', 'C17', 'R4', WS,
  "    target_ver = (2, 3)", "    target_ver = (2, 1)")
M('c17-refusal-reason-ungated', 'C17', 'R4', APP,
  """            if _supports_reason(ver):
                response['reason'] = 'Internal Server Error'
""", """            response['reason'] = 'Internal Server Error'
""")

# ------------------------------------------------------------------ R5
M('c17-send-text-no-type-check', 'C17', 'R5', WS,
  """        if not isinstance(payload, str):
            raise TypeError('payload must be a string')

""", "")
M('c17-send-data-accepts-str', 'C17', 'R5', WS,
  "        if not isinstance(payload, (bytes, bytearray, memoryview)):", "        if not isinstance(payload, (bytes, bytearray, memoryview, str)):")
M('c17-send-text-check-after-send', 'C17', 'R5', WS,
  """        if not isinstance(payload, str):
            raise TypeError('payload must be a string')

        await self._send(
            {
                'type': EventType.WS_SEND,
                'text': payload,
            }
        )
""", """        await self._send(
            {
                'type': EventType.WS_SEND,
                'text': payload,
            }
        )
        if not isinstance(payload, str):
            raise TypeError('payload must be a string')
""")
M('c17-receive-text-returns-none', 'C17', 'R5', WS,
  """        if text is None:
            raise errors.PayloadTypeError('Missing TEXT (0x01) payload')

""", "")
M('c17-receive-data-reads-text-key', 'C17', 'R5', WS,
  """        try:
            data = event['bytes']
        except KeyError:
            data = None

        # NOTE(kgriffs): Even if the key is present, it may be None
        if data is None:
            raise errors.PayloadTypeError('Missing BINARY (0x02) payload')
""", """        try:
            data = event['text']
        except KeyError:
            data = None

        # NOTE(kgriffs): Even if the key is present, it may be None
        if data is None:
            raise errors.PayloadTypeError('Missing BINARY (0x02) payload')
""")
M('c17-receive-media-keyerror-escapes', 'C17', 'R5', WS,
  """        try:
            data = event['bytes']
        except KeyError:
            data = None

        # NOTE(kgriffs): Even if the key is present, it may be None
        if data is None:
            raise errors.PayloadTypeError(
""", """        data = event['bytes']

        # NOTE(kgriffs): Even if the key is present, it may be None
        if data is None:
            raise errors.PayloadTypeError(
""")
M('c17-receive-media-wrong-error', 'C17', 'R5', WS,
  """            raise errors.PayloadTypeError(
                'Message did not contain either a TEXT (0x01) or BINARY (0x02) payload'
            )
""", """            raise errors.WebSocketDisconnected()
""")

# ------------------------------------------------------------------ R6 (pump context shared with C18; the flag clauses of C18 R3 also fire)
_FLAG_BLOCK = """            if received_event['type'] == EventType.WS_DISCONNECT:
                self.client_disconnected = True
                self.client_disconnected_code = received_event.get(
                    'code', WSCloseCode.NORMAL
                )
"""
M2('c17-disconnect-flag-after-capacity-wait', 'C17', 'R6', [
    {'file': WS, 'old': "            received_event = await self._asgi_receive()\n" + _FLAG_BLOCK,
     'new': "            received_event = await self._asgi_receive()\n"},
    {'file': WS, 'old': "            self._messages.append(received_event)\n",
     'new': "            self._messages.append(received_event)\n" + _FLAG_BLOCK},
], also=('C18',))
M2('c17-disconnect-flag-after-notify', 'C17', 'R6', [
    {'file': WS, 'old': "            received_event = await self._asgi_receive()\n" + _FLAG_BLOCK,
     'new': "            received_event = await self._asgi_receive()\n"},
    {'file': WS, 'old': """                self._pop_message_waiter.set_result(None)
                self._pop_message_waiter = None
""", 'new': """                self._pop_message_waiter.set_result(None)
                self._pop_message_waiter = None

""" + _FLAG_BLOCK},
], also=('C18',))
M('c17-disconnect-flag-only-with-room', 'C17', 'R6', WS,
  "            if received_event['type'] == EventType.WS_DISCONNECT:\n                self.client_disconnected = True",
  "            if received_event['type'] == EventType.WS_DISCONNECT and len(self._messages) < self._max_queue:\n"
  "                self.client_disconnected = True", also=('C18',))
M('c17-disconnect-flag-after-yield', 'C17', 'R6', WS,
  "            received_event = await self._asgi_receive()\n            if received_event['type']",
  "            received_event = await self._asgi_receive()\n            await asyncio.sleep(0)\n            if received_event['type']")

# ------------------------------------------------------------------ R1: additional members of the state enum (wave 5, s5-c17-1)
# The model reads the members from the Enum; a member that close()/the disconnect paths record is one more way of being
# closed, and every guard is evaluated for it.
_ENUM_OLD = "    ACCEPTED = auto()\n    CLOSED = auto()\n"
_CLOSED_PROP_OLD = """            self._state == _WebSocketState.CLOSED
            or self._buffered_receiver.client_disconnected"""
_CLOSED_PROP_DENIED = """            self._state in (_WebSocketState.CLOSED, _WebSocketState.DENIED)
            or self._buffered_receiver.client_disconnected"""
_CLOSE_WRITE_OLD = """        await self._asgi_send(response)

        self._state = _WebSocketState.CLOSED
"""
_CLOSE_WRITE_DENIED = """        await self._asgi_send(response)

        if self._state == _WebSocketState.HANDSHAKE:
            self._state = _WebSocketState.DENIED
        else:
            self._state = _WebSocketState.CLOSED
"""
_SEND_GUARD_OLD = """        if self._state == _WebSocketState.CLOSED:
            raise errors.WebSocketDisconnected(self._close_code)

        try:"""
# the seed: close() during the handshake records DENIED, `closed` knows it, _send/_require_accepted still test CLOSED only
M2('c17-denied-state-guards-test-closed-only', 'C17', 'R1', [
    {'file': WS, 'old': _ENUM_OLD, 'new': "    ACCEPTED = auto()\n    DENIED = auto()\n    CLOSED = auto()\n"},
    {'file': WS, 'old': _CLOSED_PROP_OLD, 'new': _CLOSED_PROP_DENIED},
    {'file': WS, 'old': _CLOSE_WRITE_OLD, 'new': _CLOSE_WRITE_DENIED},
])
# _send learnt the new member, the shared guard of send_*/receive_* did not: receive_*() after a denial calls the server again
M2('c17-denied-state-require-accepted-tests-closed-only', 'C17', 'R1', [
    {'file': WS, 'old': _ENUM_OLD, 'new': "    ACCEPTED = auto()\n    DENIED = auto()\n    CLOSED = auto()\n"},
    {'file': WS, 'old': _CLOSED_PROP_OLD, 'new': _CLOSED_PROP_DENIED},
    {'file': WS, 'old': _CLOSE_WRITE_OLD, 'new': _CLOSE_WRITE_DENIED},
    {'file': WS, 'old': _SEND_GUARD_OLD, 'new': """        if self._state in (_WebSocketState.CLOSED, _WebSocketState.DENIED):
            raise errors.WebSocketDisconnected(self._close_code)

        try:"""},
])
# a separate member for "the client left" recorded by _receive; `closed` was not taught: the final close() emits after the disconnect
M2('c17-lost-state-recorded-by-receive', 'C17', 'R1', [
    {'file': WS, 'old': _ENUM_OLD, 'new': "    ACCEPTED = auto()\n    CLOSED = auto()\n    LOST = auto()\n"},
    {'file': WS, 'old': """            assert event_type == EventType.WS_DISCONNECT

            self._state = _WebSocketState.CLOSED
""", 'new': """            assert event_type == EventType.WS_DISCONNECT

            self._state = _WebSocketState.LOST
"""},
])

# ------------------------------------------------------------------ R3: the cleanup fallback serves every failure of the first close (s5-c17-3)
_CLEANUP_OLD = """        except Exception as ex:
            # NOTE(kgriffs): This can be raised by Daphne. We also
            #   may raise it ourselves for errors codes < 1000, but in that
            #   case we just include this string in the exception message
            #   to make it easier to verify test coverage of the following.
            if 'invalid close code' in str(ex).lower():
                await ws.close(_FALLBACK_WS_ERROR_CODE)
            else:
                falcon._logger.warning(
                    (
                        '[FALCON] Attempt to close web connection cleanly '
                        'failed due to raised error.'
                    ),
                    exc_info=True,
                )
                raise
"""
M('c17-cleanup-fallback-only-for-valueerror', 'C17', 'R3', APP, _CLEANUP_OLD, """        except ValueError:
            await ws.close(_FALLBACK_WS_ERROR_CODE)
        except Exception:
            falcon._logger.warning(
                (
                    '[FALCON] Attempt to close web connection cleanly '
                    'failed due to raised error.'
                ),
                exc_info=True,
            )
            raise
""")
M('c17-cleanup-fallback-arm-narrowed-to-tuple', 'C17', 'R3', APP,
  "        except Exception as ex:\n            # NOTE(kgriffs): This can be raised by Daphne.",
  "        except (ValueError, TypeError) as ex:\n            # NOTE(kgriffs): This can be raised by Daphne.")
M('c17-cleanup-generic-arm-before-fallback-arm', 'C17', 'R3', APP, _CLEANUP_OLD, """        except RuntimeError as ex:
            if 'invalid close code' in str(ex).lower():
                await ws.close(_FALLBACK_WS_ERROR_CODE)
            else:
                raise
        except Exception:
            falcon._logger.warning('[FALCON] Attempt to close web connection cleanly failed due to raised error.', exc_info=True)
            raise
""")

# ------------------------------------------------------------------ R8 (= C18 R7, shared): the receive path ignores the sender-side flag (s6-c17-2)
M('c17-require-accepted-fails-fast-on-disconnect-flag', 'C17', 'R8', WS,
  """        elif self._state == _WebSocketState.CLOSED:
            raise errors.WebSocketDisconnected(self._close_code)

    def _translate_webserver_error""", """
        if self._buffered_receiver.client_disconnected:
            self._state = _WebSocketState.CLOSED
            self._close_code = self._buffered_receiver.client_disconnected_code

        if self._state == _WebSocketState.CLOSED:
            raise errors.WebSocketDisconnected(self._close_code)

    def _translate_webserver_error""", also=('C18',))
M('c17-receive-text-checks-closed-property', 'C17', 'R8', WS,
  """        self._require_accepted()

        event = await self._receive()

        # PERF(kgriffs): When we normally expect the key to be
        #   present, this pattern is faster than get()
        try:
            text = event['text']""", """        self._require_accepted()
        if self.closed:
            raise errors.WebSocketDisconnected(self._close_code)

        event = await self._receive()

        # PERF(kgriffs): When we normally expect the key to be
        #   present, this pattern is faster than get()
        try:
            text = event['text']""", also=('C18',))

# ------------------------------------------------------------------ R9: the disconnected error always carries an integer code (s6-c17-3)
ERR = 'falcon/errors.py'
_WSD_INIT_OLD = """    def __init__(self, code: Optional[int] = None) -> None:
        self.code = code or 1000  # Default to "Normal Closure"
"""
# the seed: "idiomatic" default argument; ws.py passes None explicitly
M('c17-disconnected-default-argument-instead-of-or', 'C17', 'R9', ERR, _WSD_INIT_OLD, """    def __init__(self, code: int = 1000) -> None:  # Default to "Normal Closure"
        self.code = code
""")
M('c17-disconnected-stores-optional-code-verbatim', 'C17', 'R9', ERR, _WSD_INIT_OLD, """    def __init__(self, code: Optional[int] = None) -> None:
        self.code = code
""")
# the None test is inverted: an explicit code is replaced, None is kept
M('c17-disconnected-none-test-inverted', 'C17', 'R9', ERR, _WSD_INIT_OLD, """    def __init__(self, code: Optional[int] = None) -> None:
        self.code = 1000 if code is not None else code
""")
# every disconnect is reported as a normal closure
M('c17-disconnected-ignores-given-code', 'C17', 'R9', ERR, _WSD_INIT_OLD, """    def __init__(self, code: Optional[int] = None) -> None:
        self.code = 1000  # Default to "Normal Closure"
""")
# the constructor keeps None (default argument), and only one of the sites learnt to substitute the default
M2('c17-disconnected-verbatim-one-site-guarded', 'C17', 'R9', [
    {'file': ERR, 'old': _WSD_INIT_OLD, 'new': """    def __init__(self, code: int = 1000) -> None:
        self.code = code
"""},
    {'file': WS, 'old': "            return errors.WebSocketDisconnected(close_code)", 'new': "            return errors.WebSocketDisconnected(close_code or 1000)"},
])

# ------------------------------------------------------------------ R1 converse: a recognised connection loss is recorded in the state (wave 7, s7-c17-1)
_MARK_OLD = """                self._state = _WebSocketState.CLOSED
                if isinstance(translated_ex, errors.WebSocketDisconnected):
                    self._close_code = translated_ex.code
"""
# the seed: "the receiver flags the lost connection" - there is no pump (and no flag) for max_receive_queue=0
M('c17-failed-send-loss-not-recorded', 'C17', 'R1', WS, _MARK_OLD, """                if isinstance(translated_ex, errors.WebSocketDisconnected):
                    self._close_code = translated_ex.code
""")
# recorded for the rejected subprotocol only - exactly the case that is not a connection loss
M('c17-failed-send-loss-recorded-for-other-errors-only', 'C17', 'R1', WS, _MARK_OLD, """                if isinstance(translated_ex, errors.WebSocketDisconnected):
                    self._close_code = translated_ex.code
                else:
                    self._state = _WebSocketState.CLOSED
""")
# recorded only when the pump already saw the disconnect (never, in unbuffered mode)
M('c17-failed-send-loss-recorded-only-under-receiver-flag', 'C17', 'R1', WS, _MARK_OLD, """                if self._buffered_receiver.client_disconnected:
                    self._state = _WebSocketState.CLOSED
                if isinstance(translated_ex, errors.WebSocketDisconnected):
                    self._close_code = translated_ex.code
""")
# delegated to a helper that copies the receiver's view (the s7-c18-1 helper, used on the send side)
M2('c17-failed-send-loss-recorded-by-flag-copying-helper', 'C17', 'R1', [
    {'file': WS, 'old': _MARK_OLD, 'new': """                self._sync_client_disconnected()
                if isinstance(translated_ex, errors.WebSocketDisconnected):
                    self._close_code = translated_ex.code
"""},
    {'file': WS, 'old': "    def _require_accepted(self) -> None:\n", 'new': """    def _sync_client_disconnected(self) -> None:
        receiver = self._buffered_receiver
        if receiver.client_disconnected:
            self._state = _WebSocketState.CLOSED

    def _require_accepted(self) -> None:
"""},
])

# ------------------------------------------------------------------ R1/C18 R8: a disconnect event in hand closes the socket with the event's code (wave 7, s7-c18-1)
_RECV_DISC_OLD = """            self._state = _WebSocketState.CLOSED
            self._close_code = event.get('code', WSCloseCode.NORMAL)
            raise errors.WebSocketDisconnected(self._close_code)
"""
_SYNC_HELPER = {'file': WS, 'old': "    def _require_accepted(self) -> None:\n", 'new': """    def _sync_client_disconnected(self) -> None:
        receiver = self._buffered_receiver
        if receiver.client_disconnected:
            self._state = _WebSocketState.CLOSED
            self._close_code = receiver.client_disconnected_code

    def _require_accepted(self) -> None:
"""}
# the seed: state and code copied from the receiver's flag, which only the pump raises
M2('c17-receive-disconnect-synced-from-receiver-flag', 'C17', 'R1', [
    {'file': WS, 'old': _RECV_DISC_OLD, 'new': """            self._sync_client_disconnected()
            raise errors.WebSocketDisconnected(self._close_code)
"""}, _SYNC_HELPER], also=('C18',))
# the state is recorded, the code still comes from the receiver (None without a pump)
M('c17-receive-disconnect-code-from-receiver', 'C17', 'R1', WS, _RECV_DISC_OLD, """            self._state = _WebSocketState.CLOSED
            self._close_code = self._buffered_receiver.client_disconnected_code
            raise errors.WebSocketDisconnected(self._close_code)
""", also=('C18',))
# the code is the event's, the state is left to the receiver's flag
M2('c17-receive-disconnect-state-from-receiver-flag', 'C17', 'R1', [
    {'file': WS, 'old': _RECV_DISC_OLD, 'new': """            self._sync_client_disconnected()
            self._close_code = event.get('code', WSCloseCode.NORMAL)
            raise errors.WebSocketDisconnected(self._close_code)
"""}, _SYNC_HELPER], also=('C18',))

# ------------------------------------------------------------------ R10: what is put into the events (wave 7, s7-c17-3)
_SNAP_OLD = """                'bytes': bytes(payload),
"""
_SNAP_CHECK = """            raise TypeError('payload must be a byte string')

"""
# the seed: only memoryview is materialised, a bytearray is handed over as is
M2('c17-send-data-only-memoryview-materialised', 'C17', 'R10', [
    {'file': WS, 'old': _SNAP_CHECK, 'new': """            raise TypeError('payload must be a byte string')

        if isinstance(payload, memoryview):
            payload = payload.tobytes()

"""},
    {'file': WS, 'old': _SNAP_OLD, 'new': "                'bytes': payload,\n"},
])
M('c17-send-data-payload-passed-through', 'C17', 'R10', WS, _SNAP_OLD, "                'bytes': payload,\n")
# "bytes-like is good enough": the copy is skipped for bytes AND bytearray
M('c17-send-data-snapshot-skipped-for-bytearray', 'C17', 'R10', WS, _SNAP_OLD,
  "                'bytes': payload if isinstance(payload, (bytes, bytearray)) else bytes(payload),\n")
# the snapshot is taken for the wrong branch
M('c17-send-data-snapshot-test-inverted', 'C17', 'R10', WS, _SNAP_OLD,
  "                'bytes': bytes(payload) if type(payload) is bytes else payload,\n")
# zero-copy view of the caller's buffer
M('c17-send-data-memoryview-of-payload', 'C17', 'R10', WS, _SNAP_OLD, "                'bytes': memoryview(payload),\n")
# send_media: the object is not serialized / serialized by the other handler / the payload type test is inverted
M('c17-send-media-text-not-serialized', 'C17', 'R10', WS, "                    'text': self._mh_text_serialize(media),", "                    'text': media,")
M('c17-send-media-text-by-binary-handler', 'C17', 'R10', WS, "                    'text': self._mh_text_serialize(media),", "                    'text': self._mh_bin_serialize(media),")
M('c17-send-media-payload-type-test-inverted', 'C17', 'R10', WS, "        if payload_type is WebSocketPayloadType.TEXT:", "        if payload_type is not WebSocketPayloadType.TEXT:")
# an undocumented key in the close / accept event
M('c17-close-event-undocumented-key', 'C17', 'R10', WS, "        response = {'type': EventType.WS_CLOSE, 'code': code}",
  "        response = {'type': EventType.WS_CLOSE, 'code': code, 'status': 403}")
M('c17-accept-event-undocumented-key', 'C17', 'R10', WS, "            event['subprotocol'] = subprotocol", "            event['subprotocols'] = [subprotocol]")

# ------------------------------------------------------------------ wave 8
MISC = 'falcon/util/misc.py'
_KIND_FILTER = """        if param.kind
        not in (inspect.Parameter.VAR_POSITIONAL, inspect.Parameter.VAR_KEYWORD)
"""
# R3 (seed s8-c17-1): the helper behind "does the error handler accept ws" stops reporting keyword-only parameters
M('c17-get-argnames-positional-kinds-only', 'C17', 'R3', MISC, _KIND_FILTER, """        if param.kind
        in (
            inspect.Parameter.POSITIONAL_ONLY,
            inspect.Parameter.POSITIONAL_OR_KEYWORD,
        )
""")
M('c17-get-argnames-only-positional-or-keyword', 'C17', 'R3', MISC, _KIND_FILTER,
  "        if param.kind == inspect.Parameter.POSITIONAL_OR_KEYWORD\n")
M('c17-get-argnames-excludes-keyword-only-too', 'C17', 'R3', MISC, _KIND_FILTER, """        if param.kind
        not in (inspect.Parameter.VAR_POSITIONAL, inspect.Parameter.VAR_KEYWORD, inspect.Parameter.KEYWORD_ONLY)
""")
M('c17-get-argnames-keyword-only-kinds', 'C17', 'R3', MISC, _KIND_FILTER,
  "        if param.kind is inspect.Parameter.KEYWORD_ONLY or param.kind is inspect.Parameter.POSITIONAL_ONLY\n")
# R4 (seed s8-c17-2): the registered table below 3000
_RESERVED = "        elif 1015 <= code <= 1999 or 1004 <= code <= 1006:\n"
M('c17-code-rejects-iana-1012-1014', 'C17', 'R4', WS, _RESERVED, "        elif 1012 <= code <= 1999 or 1004 <= code <= 1006:\n")
M('c17-code-rejects-1007-1010', 'C17', 'R4', WS, _RESERVED, "        elif 1015 <= code <= 1999 or 1004 <= code <= 1010:\n")
M('c17-code-rejects-1001-1003', 'C17', 'R4', WS, _RESERVED, "        elif 1015 <= code <= 1999 or 1001 <= code <= 1006:\n")
M('c17-code-lets-1004-pass', 'C17', 'R4', WS, _RESERVED, "        elif 1015 <= code <= 1999 or 1005 <= code <= 1006:\n")
M('c17-code-lets-1016-1999-pass', 'C17', 'R4', WS, _RESERVED, "        elif code == 1015 or 1004 <= code <= 1006:\n")
# R2 (seed s8-c17-3): an operation other than close() emits on the raw send, past the gate that translates server errors
M('c17-accept-bypasses-send-gate', 'C17', 'R2', WS, """        await self._send(event)
        self._state = _WebSocketState.ACCEPTED
""", """        await self._asgi_send(event)
        self._state = _WebSocketState.ACCEPTED
""")
M('c17-send-gate-catches-oserror-only', 'C17', 'R2', WS, """            await self._asgi_send(msg)
        except Exception as ex:
""", """            await self._asgi_send(msg)
        except OSError as ex:
""")
M('c17-send-gate-reraises-unclassified', 'C17', 'R2', WS, """            translated_ex = self._translate_webserver_error(ex)
            if translated_ex:
""", """            translated_ex = None
            if translated_ex:
""")

# ---- auto-mutation seeds sa-am01299 / sa-am01349 (R4): type partition of the close code {None, int, other}; end of the reserved
# block is 1999 (2000-2999 is the extension range of the page close() documents as its reference)
M('c17-code-non-int-not-rejected', 'C17', 'R4', WS, "            raise ValueError('code must be an int')\n", "            pass\n")
M('c17-code-type-guard-dropped', 'C17', 'R4', WS,
  "        elif not isinstance(code, int):\n            raise ValueError('code must be an int')\n        elif code < 1000:\n",
  "        elif code < 1000:\n")
M('c17-code-type-guard-after-range-tests', 'C17', 'R4', WS,
  "        elif not isinstance(code, int):\n            raise ValueError('code must be an int')\n        elif code < 1000:\n"
  "            raise ValueError('Invalid close code. The value must be >= 1000')\n",
  "        elif code < 1000:\n            raise ValueError('Invalid close code. The value must be >= 1000')\n"
  "        elif not isinstance(code, int):\n            raise ValueError('code must be an int')\n")
M('c17-code-type-guard-raises-typeerror-only-for-str', 'C17', 'R4', WS, "        elif not isinstance(code, int):\n",
  "        elif isinstance(code, str):\n")
M('c17-code-reserved-block-ends-2000', 'C17', 'R4', WS, _RESERVED, "        elif 1015 <= code <= 2000 or 1004 <= code <= 1006:\n")
M('c17-code-rejects-extension-range', 'C17', 'R4', WS, _RESERVED, "        elif 1015 <= code <= 2999 or 1004 <= code <= 1006:\n")

# ---- wave 9
# s9-c17-3 (R3): a generic-error handler that closes the socket itself with the configured code needs the fallback around that
# very call (the cleanup helper owns it); a direct, unprotected close loses the 3011 fallback for servers rejecting the code
_PY_WS = "        elif ws:\n            await self._ws_cleanup_on_error(ws)\n        else:\n"
M('c17-python-handler-closes-directly', 'C17', 'R3', APP, _PY_WS,
  "        elif ws:\n            await ws.close(self.ws_options.error_close_code)\n        else:\n")
M('c17-python-handler-closes-directly-local-code', 'C17', 'R3', APP, _PY_WS,
  "        elif ws:\n            code = self.ws_options.error_close_code\n            await ws.close(code)\n        else:\n")
M('c17-disconnected-handler-closes-directly', 'C17', 'R3', APP,
  "            '[FALCON] WebSocket client disconnected with code %i', error.code\n        )\n        await self._ws_cleanup_on_error(ws)\n",
  "            '[FALCON] WebSocket client disconnected with code %i', error.code\n        )\n        await ws.close(self.ws_options.error_close_code)\n")
M('c17-python-handler-direct-close-fallback-only-for-valueerror', 'C17', 'R3', APP, _PY_WS,
  "        elif ws:\n            try:\n                await ws.close(self.ws_options.error_close_code)\n            except ValueError:\n"
  "                await ws.close(_FALLBACK_WS_ERROR_CODE)\n        else:\n")

# ------------------------------------------------------------------ the state guard read through a local snapshot; one trailing emission
# (behaviour-preserving form: preserving/k1-c17-1; each mutant is that refactoring PLUS a break)
_REQ_ACC = """        if self._state == _WebSocketState.HANDSHAKE:
            raise errors.OperationNotAllowed(
                'WebSocket connection has not yet been accepted'
            )
        elif self._state == _WebSocketState.CLOSED:
            raise errors.WebSocketDisconnected(self._close_code)
"""
M('c17-guard-local-state-closed-dropped', 'C17', 'R1', 'falcon/asgi/ws.py', _REQ_ACC, """        state = self._state
        if state == _WebSocketState.HANDSHAKE:
            raise errors.OperationNotAllowed(
                'WebSocket connection has not yet been accepted'
            )
""", also=('C18',))
M('c17-guard-local-state-wrong-member', 'C17', 'R1', 'falcon/asgi/ws.py', _REQ_ACC, """        state = self._state
        if state == _WebSocketState.HANDSHAKE:
            raise errors.OperationNotAllowed(
                'WebSocket connection has not yet been accepted'
            )
        if state == _WebSocketState.ACCEPTED:
            raise errors.WebSocketDisconnected(self._close_code)
""", also=('C18',))
_SEND_MEDIA_TAIL = """        if payload_type is WebSocketPayloadType.TEXT:
            await self._send(
                {
                    'type': EventType.WS_SEND,
                    'text': self._mh_text_serialize(media),
                }
            )
        else:
            await self._send(
                {
                    'type': EventType.WS_SEND,
                    'bytes': self._mh_bin_serialize(media),
                }
            )
"""
M('c17-send-media-merged-wrong-serializer', 'C17', 'R10', 'falcon/asgi/ws.py', _SEND_MEDIA_TAIL, """        if payload_type is WebSocketPayloadType.TEXT:
            event = {
                'type': EventType.WS_SEND,
                'text': self._mh_bin_serialize(media),
            }
        else:
            event = {
                'type': EventType.WS_SEND,
                'bytes': self._mh_bin_serialize(media),
            }

        await self._send(event)
""")
M('c17-send-media-merged-swapped-branches', 'C17', 'R10', 'falcon/asgi/ws.py', _SEND_MEDIA_TAIL, """        if payload_type is not WebSocketPayloadType.TEXT:
            event = {
                'type': EventType.WS_SEND,
                'text': self._mh_text_serialize(media),
            }
        else:
            event = {
                'type': EventType.WS_SEND,
                'bytes': self._mh_bin_serialize(media),
            }

        await self._send(event)
""")
# the text literal is built for TEXT but overwritten before the one emission
M('c17-send-media-merged-literal-overwritten', 'C17', 'R10', 'falcon/asgi/ws.py', _SEND_MEDIA_TAIL, """        if payload_type is WebSocketPayloadType.TEXT:
            event = {
                'type': EventType.WS_SEND,
                'text': self._mh_text_serialize(media),
            }
        event = {
            'type': EventType.WS_SEND,
            'bytes': self._mh_bin_serialize(media),
        }

        await self._send(event)
""")


# ------------------------------------------------------------------ "refactoring + break" (second preserving wave, k2-c17-*)
# Each mutant is a behaviour-preserving rewrite the rules now read - a private module-level literal, an optional parameter nobody
# passes, a boolean local computed from the close code, a helper of the class / module handed the tracked value, a local bound
# once - plus ONE break.  The rewrites alone are silent (verified by hand with --root, see the fixer report).
_K2_CONSTS_OLD = "_CLIENT_DISCONNECTED_CAUSE = re.compile(r'received (\\d\\d\\d\\d)')\n"
# k2-c17-3: (bytes, bytearray, memoryview) hoisted into _BINARY_PAYLOAD_TYPES; break: str slips into the constant
M2('c17-k2-binary-types-constant-admits-str', 'C17', None, [
    {'file': WS, 'old': _K2_CONSTS_OLD, 'new': _K2_CONSTS_OLD + "_BINARY_PAYLOAD_TYPES = (bytes, bytearray, memoryview, str)\n"},
    {'file': WS, 'old': "        if not isinstance(payload, (bytes, bytearray, memoryview)):", 'new': "        if not isinstance(payload, _BINARY_PAYLOAD_TYPES):"}])
# ... break: the constant is bound twice (the second binding wins at import time)
M2('c17-k2-binary-types-constant-rebound', 'C17', None, [
    {'file': WS, 'old': _K2_CONSTS_OLD,
     'new': _K2_CONSTS_OLD + "_BINARY_PAYLOAD_TYPES = (bytes, bytearray, memoryview)\n_BINARY_PAYLOAD_TYPES = (object,)\n"},
    {'file': WS, 'old': "        if not isinstance(payload, (bytes, bytearray, memoryview)):", 'new': "        if not isinstance(payload, _BINARY_PAYLOAD_TYPES):"}])
# k2-c17-4: _ws_cleanup_on_error(self, ws, code=None), `if code is None: code = <configured>`; breaks: inverted test / a caller passes 1000
_K2_CLEANUP_SIG = "    async def _ws_cleanup_on_error(self, ws: WebSocket) -> None:"
_K2_CLEANUP_SIG_NEW = "    async def _ws_cleanup_on_error(self, ws: WebSocket, code: Optional[int] = None) -> None:"
_K2_CLEANUP_CLOSE = "            await ws.close(self.ws_options.error_close_code)\n"
M2('c17-k2-cleanup-optional-code-inverted-default', 'C17', 'R3', [
    {'file': APP, 'old': _K2_CLEANUP_SIG, 'new': _K2_CLEANUP_SIG_NEW},
    {'file': APP, 'old': _K2_CLEANUP_CLOSE,
     'new': "            if code is not None:\n                code = self.ws_options.error_close_code\n\n            await ws.close(code)\n"}])
M2('c17-k2-cleanup-optional-code-passed-by-a-caller', 'C17', 'R3', [
    {'file': APP, 'old': _K2_CLEANUP_SIG, 'new': _K2_CLEANUP_SIG_NEW},
    {'file': APP, 'old': _K2_CLEANUP_CLOSE,
     'new': "            if code is None:\n                code = self.ws_options.error_close_code\n\n            await ws.close(code)\n"},
    {'file': APP, 'old': "        elif ws:\n            await self._ws_cleanup_on_error(ws)\n",
     'new': "        elif ws:\n            await self._ws_cleanup_on_error(ws, 1000)\n"}])
M2('c17-k2-cleanup-optional-code-default-1000', 'C17', 'R3', [
    {'file': APP, 'old': _K2_CLEANUP_SIG, 'new': "    async def _ws_cleanup_on_error(self, ws: WebSocket, code: Optional[int] = 1000) -> None:"},
    {'file': APP, 'old': _K2_CLEANUP_CLOSE,
     'new': "            if code is None:\n                code = self.ws_options.error_close_code\n\n            await ws.close(code)\n"}])
# k2-c17-1: sequential raising guards + boolean local `reserved`; breaks: boundary, wrong polarity of the second range
_K2_VALIDATION = """        if code is None:
            code = WSCloseCode.NORMAL
        elif not isinstance(code, int):
            raise ValueError('code must be an int')
        elif code < 1000:
            raise ValueError('Invalid close code. The value must be >= 1000')
        elif 1015 <= code <= 1999 or 1004 <= code <= 1006:
            raise ValueError('Invalid close code. Only unreserved codes may be used.')
"""
_K2_GUARDS = """        if code is None:
            code = WSCloseCode.NORMAL
        else:
            if not isinstance(code, int):
                raise ValueError('code must be an int')

            if code < 1000:
                raise ValueError('Invalid close code. The value must be >= 1000')

            reserved = 1015 <= code and code <= 1999
            if not reserved:
                reserved = 1004 <= code and code <= 1006

            if reserved:
                raise ValueError('Invalid close code. Only unreserved codes may be used.')
"""
M('c17-k2-reserved-flag-upper-bound-1998', 'C17', 'R4', WS, _K2_VALIDATION, _K2_GUARDS.replace('code <= 1999', 'code <= 1998'))
M('c17-k2-reserved-flag-second-range-overwrites', 'C17', 'R4', WS, _K2_VALIDATION,
  _K2_GUARDS.replace("            if not reserved:\n                reserved = 1004", "            if reserved:\n                reserved = 1004"))
M('c17-k2-reserved-flag-or-for-and', 'C17', None, WS, _K2_VALIDATION, _K2_GUARDS.replace('1004 <= code and code <= 1006', '1004 <= code or code <= 1006'))
# the validation moved into a helper that is handed the code
_K2_VALIDATE_HELPER = """def _validate_close_code(code):
    if code is None:
        return WSCloseCode.NORMAL
    if not isinstance(code, int):
        raise ValueError('code must be an int')
    if code < 1000:
        raise ValueError('Invalid close code. The value must be >= 1000')
    if 1015 <= code <= 1999 or 1004 <= code <= 1006:
        raise ValueError('Invalid close code. Only unreserved codes may be used.')
    return code


class WebSocket:
"""
M2('c17-k2-validate-helper-rejects-1000', 'C17', 'R4', [
    {'file': WS, 'old': "class WebSocket:\n", 'new': _K2_VALIDATE_HELPER.replace('if code < 1000:', 'if code <= 1000:')},
    {'file': WS, 'old': _K2_VALIDATION, 'new': "        code = _validate_close_code(code)\n"}])
M2('c17-k2-validate-helper-result-dropped', 'C17', 'R4', [
    {'file': WS, 'old': "class WebSocket:\n", 'new': _K2_VALIDATE_HELPER},
    {'file': WS, 'old': _K2_VALIDATION, 'new': "        _validate_close_code(code)\n"}])
M2('c17-k2-reserved-predicate-helper-misses-1006', 'C17', 'R4', [
    {'file': WS, 'old': "class WebSocket:\n",
     'new': "def _is_reserved(code):\n    return 1015 <= code <= 1999 or 1004 <= code <= 1005\n\n\nclass WebSocket:\n"},
    {'file': WS, 'old': "        elif 1015 <= code <= 1999 or 1004 <= code <= 1006:", 'new': "        elif _is_reserved(code):"}])
# send_data: type check + snapshot moved into `_as_bytes(payload)`
_K2_SEND_DATA = """        if not isinstance(payload, (bytes, bytearray, memoryview)):
            raise TypeError('payload must be a byte string')

        await self._send(
            {
                'type': EventType.WS_SEND,
                'bytes': bytes(payload),
            }
        )"""
_K2_SEND_DATA_NEW = """        await self._send(
            {
                'type': EventType.WS_SEND,
                'bytes': _as_bytes(payload),
            }
        )"""
M2('c17-k2-as-bytes-helper-without-check', 'C17', 'R5', [
    {'file': WS, 'old': "class WebSocket:\n", 'new': "def _as_bytes(payload):\n    return bytes(payload)\n\n\nclass WebSocket:\n"},
    {'file': WS, 'old': _K2_SEND_DATA, 'new': _K2_SEND_DATA_NEW}])
M2('c17-k2-as-bytes-helper-without-snapshot', 'C17', 'R10', [
    {'file': WS, 'old': "class WebSocket:\n",
     'new': "def _as_bytes(payload):\n    if not isinstance(payload, (bytes, bytearray, memoryview)):\n        raise TypeError('payload must be a byte string')\n"
            "    return payload\n\n\nclass WebSocket:\n"},
    {'file': WS, 'old': _K2_SEND_DATA, 'new': _K2_SEND_DATA_NEW}])
# an inert optional parameter whose DEFAULT switches the guard off
M2('c17-k2-require-accepted-inert-flag-default-true', 'C17', 'R1', [
    {'file': WS, 'old': "    def _require_accepted(self) -> None:", 'new': "    def _require_accepted(self, _allow_closed: bool = True) -> None:"},
    {'file': WS, 'old': "        elif self._state == _WebSocketState.CLOSED:\n            raise errors.WebSocketDisconnected(self._close_code)\n\n    def _translate",
     'new': "        elif self._state == _WebSocketState.CLOSED and not _allow_closed:\n            raise errors.WebSocketDisconnected(self._close_code)\n\n    def _translate"}])
# the fallback marker read through a local / a module constant
M('c17-k2-cleanup-message-local-not-lowered', 'C17', 'R3', APP,
  "            if 'invalid close code' in str(ex).lower():", "            message = str(ex)\n            if 'invalid close code' in message:")
M2('c17-k2-cleanup-marker-constant-wrong-text', 'C17', 'R3', [
    {'file': APP, 'old': "_FALLBACK_WS_ERROR_CODE = 3011\n", 'new': "_FALLBACK_WS_ERROR_CODE = 3011\n_INVALID_CLOSE_CODE_MARKER = 'invalid code'\n"},
    {'file': APP, 'old': "            if 'invalid close code' in str(ex).lower():", 'new': "            if _INVALID_CLOSE_CODE_MARKER in str(ex).lower():"}])
# the status property with a snapshot local, wrong connective
M('c17-k2-closed-property-snapshot-and-for-or', 'C17', 'R1', WS,
  "        return (\n            self._state == _WebSocketState.CLOSED\n            or self._buffered_receiver.client_disconnected\n        )",
  "        disconnected = self._buffered_receiver.client_disconnected\n        return self._state == _WebSocketState.CLOSED and disconnected",
  also=('C18',))
# the serializer through a local bound once, wrong handler
M('c17-k2-send-media-serializer-local-of-other-handler', 'C17', 'R10', WS,
  "            await self._send(\n                {\n                    'type': EventType.WS_SEND,\n                    'text': self._mh_text_serialize(media),\n                }\n            )",
  "            serialize = self._mh_bin_serialize\n            await self._send(\n                {\n                    'type': EventType.WS_SEND,\n"
  "                    'text': serialize(media),\n                }\n            )")
# the close of an HTTP error made by a module-level helper handed the socket and the status
_K2_ERR_OLD = """            code = http_status_to_ws_code(error.status_code)
            falcon._logger.error(
                '[FALCON] HTTPError %s raised while handling WebSocket. '
                'Closing with code %s',
                error,
                code,
            )
            await ws.close(code)"""
_K2_ERR_NEW = """            code = await _close_with_status(ws, error.status_code)
            falcon._logger.error(
                '[FALCON] HTTPError %s raised while handling WebSocket. '
                'Closing with code %s',
                error,
                code,
            )"""
M2('c17-k2-close-with-status-helper-fixed-code', 'C17', 'R3', [
    {'file': APP, 'old': "class App(falcon.app.App):\n",
     'new': "async def _close_with_status(ws, status_code):\n    code = http_status_to_ws_code(status_code)\n    await ws.close(1011)\n    return code\n\n\n"
            "class App(falcon.app.App):\n"},
    {'file': APP, 'old': _K2_ERR_OLD, 'new': _K2_ERR_NEW}])
M2('c17-k2-close-with-status-helper-skips-closed-socket', 'C17', 'R3', [
    {'file': APP, 'old': "class App(falcon.app.App):\n",
     'new': "async def _close_with_status(ws, status_code):\n    code = http_status_to_ws_code(status_code)\n    if not ws.closed:\n        await ws.close(code)\n"
            "    return code\n\n\nclass App(falcon.app.App):\n"},
    {'file': APP, 'old': _K2_ERR_OLD, 'new': _K2_ERR_NEW}], also=('C18',))
# an optional parameter of _handle_websocket that nobody passes; its default skips the close
M2('c17-k2-handle-websocket-inert-flag-default-false', 'C17', 'R3', [
    {'file': APP, 'old': "        self, ver: str, scope: Dict[str, Any], receive: AsgiReceive, send: AsgiSend\n    ) -> None:\n        first_event = await receive()",
     'new': "        self, ver: str, scope: Dict[str, Any], receive: AsgiReceive, send: AsgiSend,\n        _close_on_return: bool = False,\n    ) -> None:\n"
            "        first_event = await receive()"},
    {'file': APP, 'old': "            await on_websocket(req, web_socket, **params)\n            await web_socket.close()",
     'new': "            await on_websocket(req, web_socket, **params)\n            if _close_on_return:\n                await web_socket.close()"}], also=('C18',))
# the raw send through a local bound once; the close event is sent twice, the second time in state CLOSED
M('c17-k2-raw-send-alias-close-event-twice', 'C17', 'R1', WS,
  "        await self._asgi_send(response)\n\n        self._state = _WebSocketState.CLOSED\n        self._close_code = code",
  "        send = self._asgi_send\n        self._state = _WebSocketState.CLOSED\n        await send(response)\n        await send(response)\n        self._close_code = code")
# the spec-version gate through a local bound once - to the wrong capability
M('c17-k2-reason-gate-local-of-other-capability', 'C17', 'R4', WS,
  "        if reason and self._supports_reason:  # pragma: no py311 cover",
  "        supported = self._supports_accept_headers\n        if reason and supported:  # pragma: no py311 cover")
# the cleanup helper through a local bound to the bound method, called only for some codes
M('c17-k2-cleanup-bound-method-alias-conditional', 'C17', 'R3', APP,
  "        await self._ws_cleanup_on_error(ws)\n\n    if TYPE_CHECKING:",
  "        cleanup = self._ws_cleanup_on_error\n        if error.code != 1000:\n            await cleanup(ws)\n\n    if TYPE_CHECKING:", also=('C18',))
