"""Mutation operators for C18 (WebSocket receive buffering)."""

from .mutants import M, M2

WS = 'falcon/asgi/ws.py'
APP = 'falcon/asgi/app.py'

# ------------------------------------------------------------------ R1
M('c18-await-in-receive-window', 'C18', 'R1', WS,
  """            pop_message_waiter = self._loop.create_future()
            self._pop_message_waiter = pop_message_waiter
""", """            pop_message_waiter = self._loop.create_future()
            await asyncio.sleep(0)
            self._pop_message_waiter = pop_message_waiter
""")
M('c18-await-in-pump-window', 'C18', 'R1', WS,
  """            while len(self._messages) >= self._max_queue:
                self._put_message_waiter = self._loop.create_future()
""", """            while len(self._messages) >= self._max_queue:
                await asyncio.sleep(0)
                self._put_message_waiter = self._loop.create_future()
""")
M('c18-await-between-append-and-notify', 'C18', 'R1', WS,
  """            self._messages.append(received_event)

            # Notify receive()
""", """            self._messages.append(received_event)
            await asyncio.sleep(0)

            # Notify receive()
""")
M('c18-await-between-popleft-and-notify', 'C18', 'R1', WS,
  """        message = self._messages.popleft()

        # Notify _pump()
""", """        message = self._messages.popleft()
        await asyncio.sleep(0)

        # Notify _pump()
""")
M('c18-pump-never-notifies', 'C18', 'R1', WS,
  """            # Notify receive()
            if self._pop_message_waiter is not None:
                self._pop_message_waiter.set_result(None)
                self._pop_message_waiter = None
""", """            # Notify receive()
""")
M('c18-receive-never-notifies', 'C18', 'R1', WS,
  """        # Notify _pump()
        if self._put_message_waiter is not None:
            self._put_message_waiter.set_result(None)
            self._put_message_waiter = None

""", """
""")
M('c18-pump-notifies-only-when-full', 'C18', 'R1', WS,
  """            if self._pop_message_waiter is not None:
                self._pop_message_waiter.set_result(None)""",
  """            if self._pop_message_waiter is not None and len(self._messages) > 1:
                self._pop_message_waiter.set_result(None)""")
M('c18-notify-unguarded', 'C18', 'R1', WS,
  """        if self._put_message_waiter is not None:
            self._put_message_waiter.set_result(None)
            self._put_message_waiter = None
""", """        self._put_message_waiter.set_result(None)
        self._put_message_waiter = None
""")
M('c18-receive-waits-with-one-message', 'C18', 'R1', WS,
  "        while not self._messages:\n", "        while len(self._messages) <= 1:\n")
M('c18-pump-waits-below-capacity', 'C18', 'R3', WS,
  "            while len(self._messages) >= self._max_queue:", "            while len(self._messages) >= self._max_queue + 1:")

# ------------------------------------------------------------------ R2
M('c18-receive-drop-finally', 'C18', 'R2', WS,
  """            try:
                await asyncio.wait(
                    [pop_message_waiter, self._pump_task],
                    return_when=asyncio.FIRST_COMPLETED,
                )
            finally:
                self._pop_message_waiter = None
""", """            await asyncio.wait(
                [pop_message_waiter, self._pump_task],
                return_when=asyncio.FIRST_COMPLETED,
            )
            self._pop_message_waiter = None
""")
M('c18-pump-drop-finally', 'C18', 'R2', WS,
  """                try:
                    await self._put_message_waiter
                finally:
                    self._put_message_waiter = None
""", """                await self._put_message_waiter
                self._put_message_waiter = None
""")
M('c18-receive-finally-to-except', 'C18', 'R2', WS,
  """            finally:
                self._pop_message_waiter = None

            if not pop_message_waiter.done():""", """            except ValueError:
                self._pop_message_waiter = None

            if not pop_message_waiter.done():""")
M('c18-pump-notify-keeps-slot', 'C18', 'R2', WS,
  """                self._pop_message_waiter.set_result(None)
                self._pop_message_waiter = None
""", """                self._pop_message_waiter.set_result(None)
""")
M('c18-receive-notify-keeps-slot', 'C18', 'R2', WS,
  """            self._put_message_waiter.set_result(None)
            self._put_message_waiter = None
""", """            self._put_message_waiter.set_result(None)
""")

# ------------------------------------------------------------------ R3
M('c18-pop-for-popleft', 'C18', 'R3', WS,
  "        message = self._messages.popleft()", "        message = self._messages.pop()")
M('c18-appendleft-for-append', 'C18', 'R3', WS,
  "            self._messages.append(received_event)", "            self._messages.appendleft(received_event)")
M('c18-capacity-gt-for-ge', 'C18', 'R3', WS,
  "            while len(self._messages) >= self._max_queue:", "            while len(self._messages) > self._max_queue:")
M('c18-capacity-if-for-while', 'C18', 'R3', WS,
  "            while len(self._messages) >= self._max_queue:", "            if len(self._messages) >= self._max_queue:")
M('c18-capacity-gate-removed', 'C18', None, WS,
  """            while len(self._messages) >= self._max_queue:
                self._put_message_waiter = self._loop.create_future()
                try:
                    await self._put_message_waiter
                finally:
                    self._put_message_waiter = None

            self._messages.append(received_event)
""", """            self._messages.append(received_event)
""")
# (unbounded deque) appending the marker without waiting for room is lossless and keeps the order - seeded s4-c18-1 half 2
# is harmless alone; what breaks here is that the append is not announced to a parked receiver (R1)
M('c18-disconnect-bypasses-gate', 'C18', 'R1', WS,
  """                self.client_disconnected_code = received_event.get(
                    'code', WSCloseCode.NORMAL
                )
""", """                self.client_disconnected_code = received_event.get(
                    'code', WSCloseCode.NORMAL
                )
                self._messages.append(received_event)
                continue
""")
M('c18-disconnect-flag-never-set', 'C18', 'R3', WS,
  """                self.client_disconnected = True
                self.client_disconnected_code = received_event.get(""",
  """                self.client_disconnected_code = received_event.get(""", also=('C17',))
M('c18-pump-continues-after-disconnect', 'C18', 'R3', WS,
  "        while not self.client_disconnected:\n            received_event", "        while True:\n            received_event")
M('c18-disconnect-test-wrong-type', 'C18', 'R3', WS,
  "            if received_event['type'] == EventType.WS_DISCONNECT:", "            if received_event['type'] == EventType.WS_RECEIVE:", also=('C17',))

# bounded container (seeded s4-c18-1 and variants).  Two cooperating edits: EACH half alone is harmless and must stay
# silent (verified by hand with --root and with the seed's demo.py on a pure-Python copy): `deque(maxlen=capacity)` never
# drops while every append follows a proof of a free slot; the marker skipping the capacity wait loses nothing while the
# deque is unbounded.  Together the marker is appended to a full bounded deque and the oldest message is evicted.
_DEQUE = "        self._messages = collections.deque()\n"
_GATE = "            while len(self._messages) >= self._max_queue:\n"
M2('c18-bounded-deque-marker-skips-gate', 'C18', 'R3', [
    {'file': WS, 'old': _DEQUE, 'new': "        self._messages = collections.deque(maxlen=max_queue or None)\n"},
    {'file': WS, 'old': _GATE, 'new': "            while (\n                len(self._messages) >= self._max_queue\n"
                                      "                and not self.client_disconnected\n            ):\n"},
])
M2('c18-bounded-deque-gate-skipped-by-event-type', 'C18', 'R3', [
    {'file': WS, 'old': _DEQUE, 'new': "        self._messages = collections.deque([], self._max_queue)\n"},
    {'file': WS, 'old': _GATE, 'new': "            while len(self._messages) >= self._max_queue and received_event['type'] != EventType.WS_DISCONNECT:\n"},
])
M2('c18-bounded-deque-marker-appended-in-branch', 'C18', 'R3', [
    {'file': WS, 'old': _DEQUE, 'new': "        self._messages = collections.deque(maxlen=max_queue if max_queue > 0 else None)\n"},
    {'file': WS, 'old': """                self.client_disconnected_code = received_event.get(
                    'code', WSCloseCode.NORMAL
                )
""", 'new': """                self.client_disconnected_code = received_event.get(
                    'code', WSCloseCode.NORMAL
                )
                self._messages.append(received_event)
                if self._pop_message_waiter is not None:
                    self._pop_message_waiter.set_result(None)
                    self._pop_message_waiter = None
                break
"""},
])
M2('c18-bounded-deque-if-for-while', 'C18', 'R3', [
    {'file': WS, 'old': _DEQUE, 'new': "        self._messages = collections.deque(maxlen=max_queue or None)\n"},
    {'file': WS, 'old': _GATE, 'new': "            if len(self._messages) >= self._max_queue:\n"},
])

# ------------------------------------------------------------------ R4
M('c18-stop-after-validation', 'C18', 'R4', WS,
  """        await self._buffered_receiver.stop()

        if code is None:
            code = WSCloseCode.NORMAL
        elif not isinstance(code, int):
            raise ValueError('code must be an int')
        elif code < 1000:
            raise ValueError('Invalid close code. The value must be >= 1000')
        elif 1015 <= code <= 1999 or 1004 <= code <= 1006:
            raise ValueError('Invalid close code. Only unreserved codes may be used.')
""", """        if code is None:
            code = WSCloseCode.NORMAL
        elif not isinstance(code, int):
            raise ValueError('code must be an int')
        elif code < 1000:
            raise ValueError('Invalid close code. The value must be >= 1000')
        elif 1015 <= code <= 1999 or 1004 <= code <= 1006:
            raise ValueError('Invalid close code. Only unreserved codes may be used.')

        await self._buffered_receiver.stop()
""")
M('c18-close-never-stops', 'C18', 'R4', WS,
  """        await self._buffered_receiver.stop()

        if code is None:""", """        if code is None:""")
M('c18-close-stop-not-awaited', 'C18', 'R4', WS,
  "        await self._buffered_receiver.stop()", "        self._buffered_receiver.stop()")
M('c18-stop-no-cancel', 'C18', 'R4', WS,
  """        self._pump_task.cancel()
        try:""", """        try:""")
M('c18-stop-no-await', 'C18', 'R4', WS,
  """        self._pump_task.cancel()
        try:
            await self._pump_task
        except asyncio.CancelledError:
            pass

        self._pump_task = None
""", """        self._pump_task.cancel()
        self._pump_task = None
""")
M('c18-stop-cancelled-error-escapes', 'C18', 'R4', WS,
  """            await self._pump_task
        except asyncio.CancelledError:
            pass
""", """            await self._pump_task
        except asyncio.TimeoutError:
            pass
""")
M('c18-stop-no-clear', 'C18', 'R4', WS,
  """        except asyncio.CancelledError:
            pass

        self._pump_task = None
""", """        except asyncio.CancelledError:
            pass
""")
M('c18-start-not-idempotent', 'C18', 'R4', WS,
  "        if self._pump_task is None and self._max_queue > 0:", "        if self._max_queue > 0:")
M('c18-start-for-capacity-zero', 'C18', 'R4', WS,
  "        if self._pump_task is None and self._max_queue > 0:", "        if self._pump_task is None:")
M('c18-ws-no-bypass-for-zero', 'C18', 'R4', WS,
  "        if max_receive_queue > 0:", "        if max_receive_queue >= 0:")
M('c18-ws-bypass-inverted', 'C18', 'R4', WS,
  "        if max_receive_queue > 0:", "        if max_receive_queue <= 0:")

# ------------------------------------------------------------------ R5 (session-ending paths reach close() -> stop(); shared with C17 R3)
# `closed` is already true / `ready` already false once only the CLIENT side is gone, while the pump may still be
# parked on the capacity wait: a path that skips close() on those properties leaves the task running.
M('c18-cleanup-skipped-when-closed', 'C18', 'R5', APP,
  """    async def _ws_cleanup_on_error(self, ws: WebSocket) -> None:
""", """    async def _ws_cleanup_on_error(self, ws: WebSocket) -> None:
        if ws.closed:
            return

""", also=('C17',))
M('c18-disconnected-handler-skips-closed', 'C18', 'R5', APP,
  """            '[FALCON] WebSocket client disconnected with code %i', error.code
        )
        await self._ws_cleanup_on_error(ws)
""", """            '[FALCON] WebSocket client disconnected with code %i', error.code
        )
        if not ws.closed:
            await self._ws_cleanup_on_error(ws)
""", also=('C17',))
M('c18-handle-ws-close-only-if-not-closed', 'C18', 'R5', APP,
  """            await on_websocket(req, web_socket, **params)
            await web_socket.close()
""", """            await on_websocket(req, web_socket, **params)
            if not web_socket.closed:
                await web_socket.close()
""", also=('C17',))
M('c18-http-error-handler-close-only-if-ready', 'C18', 'R5', APP,
  """                error,
                code,
            )
            await ws.close(code)
""", """                error,
                code,
            )
            if ws.ready or ws.unaccepted:
                await ws.close(code)
""", also=('C17',))

# ------------------------------------------------------------------ R6 (the "pump ended" conclusion of receive())
M('c18-receive-end-on-task-done', 'C18', 'R6', WS,
  "            if not pop_message_waiter.done():", "            if self._pump_task.done():", also=('C17',))
M('c18-receive-end-on-task-done-or-unnotified', 'C18', 'R6', WS,
  "            if not pop_message_waiter.done():", "            if self._pump_task.done() or not pop_message_waiter.done():", also=('C17',))
M('c18-receive-end-on-disconnect-flag', 'C18', 'R6', WS,
  "            if not pop_message_waiter.done():", "            if self.client_disconnected:", also=('C17',))
M('c18-receive-disconnect-shortcut-on-entry', 'C18', 'R6', WS,
  """        while not self._messages:
            # ----""", """        if self.client_disconnected:
            return {'type': EventType.WS_DISCONNECT, 'code': self.client_disconnected_code}

        while not self._messages:
            # ----""", also=('C17',))

M('c18-require-accepted-checks-disconnect-flag', 'C18', 'R7', 'falcon/asgi/ws.py',
  """        elif self._state == _WebSocketState.CLOSED:
            raise errors.WebSocketDisconnected(self._close_code)

    def _translate_webserver_error""", """        elif self._state == _WebSocketState.CLOSED:
            raise errors.WebSocketDisconnected(self._close_code)
        elif self._buffered_receiver.client_disconnected:
            raise errors.WebSocketDisconnected(self._buffered_receiver.client_disconnected_code)

    def _translate_webserver_error""", also=('C17',))

# ------------------------------------------------------------------ R7 through same-class helpers (wave 5, s5-c18-3)
_SEND_HEAD = """        if self._buffered_receiver.client_disconnected:
            self._state = _WebSocketState.CLOSED
            self._close_code = self._buffered_receiver.client_disconnected_code

        if self._state == _WebSocketState.CLOSED:
            raise errors.WebSocketDisconnected(self._close_code)

        try:
            await self._asgi_send(msg)"""
_SEND_HEAD_HELPER = """        self._check_disconnected()

        try:
            await self._asgi_send(msg)"""
_HELPER = """    def _check_disconnected(self) -> None:
        if self._buffered_receiver.client_disconnected:
            self._state = _WebSocketState.CLOSED
            self._close_code = self._buffered_receiver.client_disconnected_code

        if self._state == _WebSocketState.CLOSED:
            raise errors.WebSocketDisconnected(self._close_code)

    def _translate_webserver_error(self"""
# the seed: the sender's "fold the flag, raise if closed" block becomes a helper that _require_accepted (every receive_*) calls too
M2('c18-shared-disconnect-helper-on-receive-path', 'C18', 'R7', [
    {'file': WS, 'old': _SEND_HEAD, 'new': _SEND_HEAD_HELPER},
    {'file': WS, 'old': """        elif self._state == _WebSocketState.CLOSED:
            raise errors.WebSocketDisconnected(self._close_code)

    def _translate_webserver_error(self""", 'new': """
        self._check_disconnected()

""" + _HELPER},
])
# the helper is called by one receive method directly
M2('c18-receive-text-calls-sender-helper', 'C18', 'R7', [
    {'file': WS, 'old': _SEND_HEAD, 'new': _SEND_HEAD_HELPER},
    {'file': WS, 'old': "    def _translate_webserver_error(self", 'new': _HELPER},
    {'file': WS, 'old': """        self._require_accepted()

        event = await self._receive()

        # PERF(kgriffs): When we normally expect the key to be
        #   present, this pattern is faster than get()
""", 'new': """        self._require_accepted()
        self._check_disconnected()

        event = await self._receive()

        # PERF(kgriffs): When we normally expect the key to be
        #   present, this pattern is faster than get()
"""},
])
# the flag reaches the receive path through the `closed` property
M('c18-require-accepted-tests-closed-property', 'C18', 'R7', WS,
  """        elif self._state == _WebSocketState.CLOSED:
            raise errors.WebSocketDisconnected(self._close_code)

    def _translate_webserver_error""", """        elif self.closed:
            raise errors.WebSocketDisconnected(self._close_code)

    def _translate_webserver_error""")

# ------------------------------------------------------------------ R6 over the done/pending sets returned by asyncio.wait() (wave 6, s6-c18-3)
_WAIT_OLD = """                await asyncio.wait(
                    [pop_message_waiter, self._pump_task],"""
_WAIT_SETS = """                done, pending = await asyncio.wait(
                    {pop_message_waiter, self._pump_task},"""
_END_TEST_OLD = "            if not pop_message_waiter.done():"
# the seed: both futures can be done when the receiver wakes (message appended, disconnect pulled, pump finished in one step)
M2('c18-receive-end-on-task-in-done-set', 'C18', 'R6', [
    {'file': WS, 'old': _WAIT_OLD, 'new': _WAIT_SETS},
    {'file': WS, 'old': _END_TEST_OLD, 'new': "            if self._pump_task in done:"},
], also=('C17',))
M2('c18-receive-end-on-task-not-in-pending-set', 'C18', 'R6', [
    {'file': WS, 'old': _WAIT_OLD, 'new': _WAIT_SETS},
    {'file': WS, 'old': _END_TEST_OLD, 'new': "            if self._pump_task not in pending:"},
], also=('C17',))
M2('c18-receive-end-on-task-in-done-or-waiter-pending', 'C18', 'R6', [
    {'file': WS, 'old': _WAIT_OLD, 'new': _WAIT_SETS},
    {'file': WS, 'old': _END_TEST_OLD, 'new': "            if self._pump_task in done or pop_message_waiter in pending:"},
], also=('C17',))
# polarity slip: end of stream is reported exactly when a message WAS announced
M2('c18-receive-end-when-waiter-in-done-set', 'C18', 'R6', [
    {'file': WS, 'old': _WAIT_OLD, 'new': _WAIT_SETS},
    {'file': WS, 'old': _END_TEST_OLD, 'new': "            if pop_message_waiter in done:"},
], also=('C17',))

# ------------------------------------------------------------------ R8 (= part of C17 R1, shared): a disconnect event in hand on the receive path (wave 7, s7-c18-1)
_RECV_DISC_OLD = """            self._state = _WebSocketState.CLOSED
            self._close_code = event.get('code', WSCloseCode.NORMAL)
            raise errors.WebSocketDisconnected(self._close_code)
"""
_SYNC_HELPER = {'file': WS, 'old': "    def _require_accepted(self) -> None:\n", 'new': """    def _sync_client_disconnected(self) -> None:
        # the receiver is the single source of truth for the client's end
        receiver = self._buffered_receiver
        if receiver.client_disconnected:
            self._state = _WebSocketState.CLOSED
            self._close_code = receiver.client_disconnected_code

    def _require_accepted(self) -> None:
"""}
# the seed: _send and _receive share a helper that copies state and code from the receiver's flag - which only the pump raises
# (max_receive_queue=0: no pump, a received websocket.disconnect neither closes the socket nor records its code)
M2('c18-unbuffered-disconnect-synced-from-pump-flag', 'C18', 'R8', [
    {'file': WS, 'old': """        if self._buffered_receiver.client_disconnected:
            self._state = _WebSocketState.CLOSED
            self._close_code = self._buffered_receiver.client_disconnected_code

        if self._state == _WebSocketState.CLOSED:""", 'new': """        self._sync_client_disconnected()

        if self._state == _WebSocketState.CLOSED:"""},
    {'file': WS, 'old': _RECV_DISC_OLD, 'new': """            self._sync_client_disconnected()
            raise errors.WebSocketDisconnected(self._close_code)
"""},
    _SYNC_HELPER], also=('C17',))
# the socket is closed, but the code reported is the pump's (None in unbuffered mode), not the event's
M('c18-unbuffered-disconnect-code-from-pump', 'C18', 'R8', WS, _RECV_DISC_OLD, """            self._state = _WebSocketState.CLOSED
            self._close_code = self._buffered_receiver.client_disconnected_code
            raise errors.WebSocketDisconnected(self._close_code)
""", also=('C17',))
# closed only when the pump agrees
M('c18-unbuffered-disconnect-closed-only-under-pump-flag', 'C18', 'R8', WS, _RECV_DISC_OLD, """            if self._buffered_receiver.client_disconnected:
                self._state = _WebSocketState.CLOSED
            self._close_code = event.get('code', WSCloseCode.NORMAL)
            raise errors.WebSocketDisconnected(self._close_code)
""", also=('C17',))

# ---- auto-mutation seed sa-am01220 (R9): ready/closed are complementary views over (state, client-disconnected flag)
_READY_OLD = """            self._state == _WebSocketState.ACCEPTED
            and not self._buffered_receiver.client_disconnected
"""
M('c18-ready-ignores-disconnect-flag', 'C18', 'R9', WS, _READY_OLD, "            self._state == _WebSocketState.ACCEPTED\n")
M('c18-ready-flag-polarity', 'C18', 'R9', WS, _READY_OLD,
  "            self._state == _WebSocketState.ACCEPTED\n            and self._buffered_receiver.client_disconnected\n")
M('c18-ready-is-not-closed-state-only', 'C18', 'R9', WS, _READY_OLD, "            self._state != _WebSocketState.CLOSED\n")
M('c18-ready-or-for-and', 'C18', 'R9', WS, _READY_OLD,
  "            self._state == _WebSocketState.ACCEPTED\n            or not self._buffered_receiver.client_disconnected\n")

# ------------------------------------------------------------------ wave 9 (s9-c18-3): the flag is identified by def-use in the pump,
# not through its reader _send - the sender's bookkeeping MOVED into the guard the receive_* methods share
_FLAG_BLOCK = """        if self._buffered_receiver.client_disconnected:
            self._state = _WebSocketState.CLOSED
            self._close_code = self._buffered_receiver.client_disconnected_code

"""
_REQ_TAIL = """        elif self._state == _WebSocketState.CLOSED:
            raise errors.WebSocketDisconnected(self._close_code)

    def _translate_webserver_error"""
M2('c18-flag-bookkeeping-moved-to-require-accepted', 'C18', 'R7', [
    {'file': WS, 'old': _FLAG_BLOCK, 'new': ""},
    {'file': WS, 'old': _REQ_TAIL, 'new': """
""" + _FLAG_BLOCK + """        if self._state == _WebSocketState.CLOSED:
            raise errors.WebSocketDisconnected(self._close_code)

    def _translate_webserver_error"""},
], also=('C17',))
# moved into the receive-side wrapper itself (nobody on the sender's side reads the flag any more)
M2('c18-flag-bookkeeping-moved-to-receive', 'C18', 'R7', [
    {'file': WS, 'old': _FLAG_BLOCK, 'new': ""},
    {'file': WS, 'old': """        self._require_accepted()

        event = await self._receive()

        # PERF(kgriffs): When we normally expect the key to be
        #   present, this pattern is faster than get()
""", 'new': """        self._require_accepted()
""" + _FLAG_BLOCK + """        event = await self._receive()

        # PERF(kgriffs): When we normally expect the key to be
        #   present, this pattern is faster than get()
"""},
], also=('C17',))

# ------------------------------------------------------------------ the notify protocol read through same-class helpers / hoisted locals
# (the behaviour-preserving forms are preserving/k1-c18-1 and k1-c18-2; each mutant is that refactoring PLUS a break)
_NOTIFY_RECEIVE_INLINE = """            self._messages.append(received_event)

            # Notify receive()
            if self._pop_message_waiter is not None:
                self._pop_message_waiter.set_result(None)
                self._pop_message_waiter = None
"""
_PUMP_HEAD = """    async def _pump(self) -> None:
        while not self.client_disconnected:
"""
# helper extracted, but it forgets to empty the slot it notified
M2('c18-notify-helper-keeps-slot', 'C18', 'R2', [
    {'file': WS, 'old': _NOTIFY_RECEIVE_INLINE, 'new': """            self._messages.append(received_event)
            self._notify_receive()
"""},
    {'file': WS, 'old': _PUMP_HEAD, 'new': """    def _notify_receive(self) -> None:
        pop_message_waiter = self._pop_message_waiter
        if pop_message_waiter is not None:
            pop_message_waiter.set_result(None)

""" + _PUMP_HEAD},
])
# helper extracted, but the pump suspends between the append and the call of the helper
M2('c18-notify-helper-called-after-await', 'C18', 'R1', [
    {'file': WS, 'old': _NOTIFY_RECEIVE_INLINE, 'new': """            self._messages.append(received_event)
            await asyncio.sleep(0)
            self._notify_receive()
"""},
    {'file': WS, 'old': _PUMP_HEAD, 'new': """    def _notify_receive(self) -> None:
        pop_message_waiter = self._pop_message_waiter
        if pop_message_waiter is not None:
            pop_message_waiter.set_result(None)
            self._pop_message_waiter = None

""" + _PUMP_HEAD},
])
# helper extracted with the guard inverted (notifies only when nobody waits)
M2('c18-notify-helper-inverted-guard', 'C18', 'R1', [
    {'file': WS, 'old': _NOTIFY_RECEIVE_INLINE, 'new': """            self._messages.append(received_event)
            self._notify_receive()
"""},
    {'file': WS, 'old': _PUMP_HEAD, 'new': """    def _notify_receive(self) -> None:
        pop_message_waiter = self._pop_message_waiter
        if pop_message_waiter is None:
            pop_message_waiter.set_result(None)
            self._pop_message_waiter = None

""" + _PUMP_HEAD},
])
# loop invariants hoisted into locals, and the capacity test weakened
M2('c18-hoisted-locals-gate-gt', 'C18', 'R3', [
    {'file': WS, 'old': _PUMP_HEAD, 'new': """    async def _pump(self) -> None:
        messages = self._messages
        max_queue = self._max_queue
        while not self.client_disconnected:
"""},
    {'file': WS, 'old': "            while len(self._messages) >= self._max_queue:\n", 'new': "            while len(messages) > max_queue:\n"},
    {'file': WS, 'old': "            self._messages.append(received_event)\n", 'new': "            messages.append(received_event)\n"},
])
# hoisted queue local, append at the wrong end
M2('c18-hoisted-locals-appendleft', 'C18', 'R3', [
    {'file': WS, 'old': _PUMP_HEAD, 'new': """    async def _pump(self) -> None:
        messages = self._messages
        while not self.client_disconnected:
"""},
    {'file': WS, 'old': "            self._messages.append(received_event)\n", 'new': "            messages.appendleft(received_event)\n"},
])


# ------------------------------------------------------------------ "refactoring + break" (second preserving wave)
# a local bound once to the receiver (`receiver = self._buffered_receiver`) is read by R4; break: the stop moved behind the validation
M2('c18-k2-receiver-alias-stop-after-validation', 'C18', 'R4', [
    {'file': WS, 'old': "        await self._buffered_receiver.stop()\n\n        if code is None:",
     'new': "        receiver = self._buffered_receiver\n\n        if code is None:"},
    {'file': WS, 'old': "        if self.closed:\n            return\n\n        response = {'type': EventType.WS_CLOSE, 'code': code}",
     'new': "        await receiver.stop()\n        if self.closed:\n            return\n\n        response = {'type': EventType.WS_CLOSE, 'code': code}"}])
# an optional parameter nobody passes evaluates as its default; break: the default skips the await
M2('c18-k2-stop-inert-wait-flag-default-false', 'C18', 'R4', [
    {'file': WS, 'old': "    async def stop(self) -> None:", 'new': "    async def stop(self, _wait: bool = False) -> None:"},
    {'file': WS, 'old': "        try:\n            await self._pump_task\n        except asyncio.CancelledError:\n            pass\n\n        self._pump_task = None",
     'new': "        if _wait:\n            try:\n                await self._pump_task\n            except asyncio.CancelledError:\n                pass\n\n        self._pump_task = None"}])
# the status property with a snapshot local (evaluated over the cells), wrong connective
M('c18-k2-closed-property-snapshot-and-for-or', 'C18', 'R9', WS,
  "        return (\n            self._state == _WebSocketState.CLOSED\n            or self._buffered_receiver.client_disconnected\n        )",
  "        disconnected = self._buffered_receiver.client_disconnected\n        return self._state == _WebSocketState.CLOSED and disconnected",
  also=('C17',))
# `notified = waiter.done()` read as a fresh snapshot; break: wrong polarity
M('c18-k2-done-snapshot-local-wrong-polarity', 'C18', 'R6', WS,
  "            if not pop_message_waiter.done():", "            notified = pop_message_waiter.done()\n            if notified:", also=('C17',))
