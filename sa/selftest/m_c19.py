"""Mutation operators for C19 (concurrent requests)."""

from .mutants import M, M2

RT = 'falcon/routing/compiled.py'

# ------------------------------------------------------------------ R1
M('c19-compile-without-lock', 'C19', 'R1', RT,
  """        with self._compile_lock:
            if self._find == self._compile_and_find:
                # NOTE(caselit): replace the find with the result of the
                # router compilation
                self._find = self._compile()
""", """        if self._find == self._compile_and_find:
            # NOTE(caselit): replace the find with the result of the
            # router compilation
            self._find = self._compile()
""")
M('c19-compile-lock-per-call', 'C19', 'R1', RT,
  "        with self._compile_lock:\n            if self._find == self._compile_and_find:",
  "        with Lock():\n            if self._find == self._compile_and_find:")
M('c19-compile-no-recheck', 'C19', 'R1', RT,
  """        with self._compile_lock:
            if self._find == self._compile_and_find:
                # NOTE(caselit): replace the find with the result of the
                # router compilation
                self._find = self._compile()
""", """        with self._compile_lock:
            self._find = self._compile()
""")
M('c19-compile-recheck-outside-lock', 'C19', 'R1', RT,
  """        with self._compile_lock:
            if self._find == self._compile_and_find:
                # NOTE(caselit): replace the find with the result of the
                # router compilation
                self._find = self._compile()
""", """        if self._find == self._compile_and_find:
            with self._compile_lock:
                self._find = self._compile()
""")
M('c19-publish-before-build', 'C19', 'R1', RT,
  """                self._find = self._compile()
        # NOTE(caselit): return_values, patterns""", """                self._find = None  # mark as "compiling"
                self._find = self._compile()
        # NOTE(caselit): return_values, patterns""")
M2('c19-builder-publishes-finder-early', 'C19', 'R1', [
    {'file': RT, 'old': """        self._return_values = []
        self._patterns = []
        self._converters = []

        self._ast = _CxParent()
""", 'new': """        self._return_values = []
        self._patterns = []
        self._converters = []
        self._find = self._find_uncompiled

        self._ast = _CxParent()
"""},
    {'file': RT, 'old': """    def _instantiate_converter(
        self, klass: type""", 'new': """    def _find_uncompiled(self, path, return_values, patterns, converters, params):  # type: ignore
        return None

    def _instantiate_converter(
        self, klass: type"""}])
M('c19-stale-tables-after-compile', 'C19', 'R1', RT,
  """        return self._find(
            path, self._return_values, self._patterns, self._converters, params
        )

    def _instantiate""" if False else """        # NOTE(caselit): return_values, patterns, converters are reset by the _compile
        # method, so the updated ones must be used
        return self._find(
            path, self._return_values, self._patterns, self._converters, params
        )
""", """        return self._find(path, _return_values, _patterns, _converters, params)
""", also=('C01',))
M('c19-find-writes-router', 'C19', None, RT,
  """        path = uri.lstrip('/').split('/')
        params: Dict[str, Any] = {}
""", """        path = uri.lstrip('/').split('/')
        self._finder_src = uri
        params: Dict[str, Any] = {}
""")

# ------------------------------------------------------------------ R2
M('c19-wsgi-app-caches-last-req', 'C19', None, 'falcon/app.py',
  """        req = self._request_type(env, options=self.req_options)
        resp = self._response_type(options=self.resp_options)
""", """        req = self._request_type(env, options=self.req_options)
        self._last_req = req
        resp = self._response_type(options=self.resp_options)
""")
M('c19-asgi-app-counts-requests', 'C19', 'R2', 'falcon/asgi/app.py',
  """        resp = self._response_type(options=self.resp_options)

        resource: Optional[object] = None
""", """        resp = self._response_type(options=self.resp_options)
        self._requests_seen += 1

        resource: Optional[object] = None
""")
M('c19-asgi-error-handler-remembers-error', 'C19', 'R2', 'falcon/asgi/app.py',
  "        falcon._logger.error('[FALCON] Unhandled exception in ASGI app', exc_info=error)\n",
  "        falcon._logger.error('[FALCON] Unhandled exception in ASGI app', exc_info=error)\n        self._last_error = error\n")
M('c19-cors-remembers-origin', 'C19', 'R2', 'falcon/middleware.py',
  "        origin = req.get_header('Origin')\n", "        origin = self._origin = req.get_header('Origin')\n")
M('c19-static-route-remembers-path', 'C19', 'R2', 'falcon/routing/static.py',
  """        assert not kw
        if req.method == 'OPTIONS':""", """        assert not kw
        self._last_path = req.path
        if req.method == 'OPTIONS':""")
M('c19-json-handler-keeps-payload', 'C19', 'R2', 'falcon/media/json.py',
  """        return self._deserialize(stream.read())
""", """        self._last = stream.read()
        return self._deserialize(self._last)
""")
M('c19-get-responder-memoises-on-app', 'C19', 'R2', 'falcon/app.py',
  """        path = req.path
        method = 'WEBSOCKET' if req.is_websocket else req.method
""", """        path = req.path
        self._route_log.append(path)
        method = 'WEBSOCKET' if req.is_websocket else req.method
""")

# ------------------------------------------------------------------ R3
M('c19-class-level-callback-list', 'C19', 'R3', 'falcon/asgi/response.py',
  "    _registered_callbacks: Optional[List[ResponseCallbacks]] = None", "    _registered_callbacks: List[ResponseCallbacks] = []")
M('c19-class-level-cookie-dict', 'C19', 'R3', 'falcon/request.py',
  "    _cookies: Optional[Dict[str, List[str]]] = None", "    _cookies: Dict[str, List[str]] = {}")
M('c19-class-level-dict-call', 'C19', 'R3', 'falcon/media/multipart.py',
  "    _filename: UnsetOr[Optional[str]] = _UNSET", "    _filename: UnsetOr[Optional[str]] = _UNSET\n    _header_cache = dict()")
M('c19-mutable-default-argument', 'C19', 'R3', 'falcon/request.py',
  "        default: Optional[List[_T]] = None,", "        default: Optional[List[_T]] = [],")
M('c19-new-module-level-cache', 'C19', 'R3', 'falcon/request.py',
  "TRUE_STRINGS = frozenset(", "_PARAM_CACHE: dict = {}\nTRUE_STRINGS = frozenset(")
M('c19-new-module-level-deque', 'C19', 'R3', 'falcon/response.py',
  "_RESERVED_CROSSORIGIN_VALUES = frozenset(", "import collections\n_RECENT = collections.deque(maxlen=10)\n_RESERVED_CROSSORIGIN_VALUES = frozenset(")
M('c19-name-cache-value-depends-on-request', 'C19', 'R3', 'falcon/asgi/request.py',
  "            asgi_name = name.lower().encode('latin1')", "            asgi_name = (name.lower() + (default or '')).encode('latin1')", also=('C06', 'C09'))
M2('c19-const-table-mutated-per-request', 'C19', 'R3', [
    {'file': 'falcon/asgi/app.py', 'old': "        await send(_EVT_RESP_EOF)\n",
     'new': "        _EVT_RESP_EOF['more_body'] = False\n        await send(_EVT_RESP_EOF)\n", 'count': 2, 'occurrence': 1}],
   also=('C05',))   # C05 R1 (wave 5): an event object handed to send() is not modified -- the shared constant is such an event
M('c19-new-lru-cache-on-request-method', 'C19', 'R3', 'falcon/request.py',
  "    def client_accepts(self, media_type: str) -> bool:", "    @__import__('functools').lru_cache(maxsize=64)\n    def client_accepts(self, media_type: str) -> bool:")
M('c19-memo-reads-mutable-global', 'C19', 'R3', 'falcon/util/mediatypes.py',
  "@functools.lru_cache()\ndef _parse_media_ranges(header: str) -> Tuple[_MediaRange, ...]:\n",
  "_SEEN: list = []\n\n\n@functools.lru_cache()\ndef _parse_media_ranges(header: str) -> Tuple[_MediaRange, ...]:\n    _SEEN.append(header)\n")
M('c19-cached-parse-result-mutated', 'C19', 'R3', 'falcon/util/mediatypes.py',
  "        mr_pnames = frozenset(self.params)\n", "        media_type.params.pop('q', None)\n        mr_pnames = frozenset(self.params)\n")

# ------------------------------------------------------------------ R4
M('c19-find-params-default-argument', 'C19', None, RT,
  """        self, uri: str, req: Optional['Request'] = None
    ) -> Optional[Tuple[object, MethodDict, Dict[str, Any], Optional[str]]]:""",
  """        self, uri: str, req: Optional['Request'] = None, params: Dict[str, Any] = {}
    ) -> Optional[Tuple[object, MethodDict, Dict[str, Any], Optional[str]]]:""", also=())
M('c19-find-params-shared', 'C19', 'R4', RT,
  """        path = uri.lstrip('/').split('/')
        params: Dict[str, Any] = {}
""", """        path = uri.lstrip('/').split('/')
        params: Dict[str, Any] = self._options.__dict__
""")
M('c19-stub-drops-params', 'C19', 'R4', RT,
  """        return self._find(
            path, self._return_values, self._patterns, self._converters, params
        )

    def _instantiate_converter""" if False else """                self._find = self._compile()
        # NOTE(caselit): return_values, patterns, converters are reset by the _compile
        # method, so the updated ones must be used
        return self._find(
            path, self._return_values, self._patterns, self._converters, params
        )""", """                self._find = self._compile()
        # NOTE(caselit): return_values, patterns, converters are reset by the _compile
        # method, so the updated ones must be used
        return self._find(
            path, self._return_values, self._patterns, self._converters, {}
        )""", also=('C01',))
M('c19-asgi-req-also-bound-to-app', 'C19', 'R4', 'falcon/asgi/app.py',
  "        req = self._request_type(scope, receive, options=self.req_options)", "        req = self._ws_req = self._request_type(scope, receive, options=self.req_options)")
M('c19-handle-exception-parks-resp', 'C19', None, 'falcon/app.py',
  """        err_handler = self._find_error_handler(ex)

        # NOTE(caselit): Reset body""", """        err_handler = self._find_error_handler(ex)
        self._failed.append((req, resp))

        # NOTE(caselit): Reset body""")

M('c19-find-reads-tables-into-locals-first', 'C19', 'R1', 'falcon/routing/compiled.py',
  """        node: Optional[CompiledRouterNode] = self._find(
            path, self._return_values, self._patterns, self._converters, params
        )""", """        return_values = self._return_values
        node: Optional[CompiledRouterNode] = self._find(
            path, return_values, self._patterns, self._converters, params
        )""", also=('C01',))

# ---- wave 4
M('c19-compile-clears-tables-in-place', 'C19', 'R6', 'falcon/routing/compiled.py',
  """        self._return_values = []
        self._patterns = []
        self._converters = []

        self._ast = _CxParent()
""", """        self._return_values.clear()
        self._patterns.clear()
        self._converters.clear()

        self._ast = _CxParent()
""", also=('C01',))
M('c19-compile-slice-resets-one-table', 'C19', 'R6', 'falcon/routing/compiled.py',
  """        self._patterns = []
        self._converters = []

        self._ast = _CxParent()
""", """        del self._patterns[:]
        self._converters = []

        self._ast = _CxParent()
""", also=('C01',))

# ---- wave 5: the finder call looked through one same-class helper (R1 order clause, R4, R6), alias stores (R2)
_FIND_INLINE = """        node: Optional[CompiledRouterNode] = self._find(
            path, self._return_values, self._patterns, self._converters, params
        )
"""
_STUB_TAIL = """        # NOTE(caselit): return_values, patterns, converters are reset by the _compile
        # method, so the updated ones must be used
        return self._find(
            path, self._return_values, self._patterns, self._converters, params
        )
"""
_HELPER_SIG = """
    def _lookup(self, path: List[str], params: Dict[str, Any]) -> Any:
"""


def _helper_mutant(id, rule, body, find_call='self._lookup(path, params)', stub_call='self._lookup(path, params)', sig=_HELPER_SIG, also=()):
    M2(id, 'C19', rule, [
        {'file': RT, 'old': _FIND_INLINE, 'new': "        node: Optional[CompiledRouterNode] = %s\n" % find_call},
        {'file': RT, 'old': _STUB_TAIL, 'new': "        return %s\n%s%s" % (stub_call, sig, body)}], also=also)


# the seed: the de-duplicated helper collects the tables before it loads the finder slot
_helper_mutant('c19-lookup-helper-tables-tuple-before-finder', 'R1',
               "        tables = (self._return_values, self._patterns, self._converters)\n"
               "        return self._find(path, *tables, params)\n")
_helper_mutant('c19-lookup-helper-one-table-local-before-finder', 'R1',
               "        converters = self._converters\n"
               "        return self._find(path, self._return_values, self._patterns, converters, params)\n")
_helper_mutant('c19-lookup-helper-tables-then-finder-alias', 'R1',
               "        tables = (self._return_values, self._patterns, self._converters)\n"
               "        find = self._find\n"
               "        return find(path, *tables, params)\n")
# the tables are evaluated by find() and handed to the helper, which loads the finder afterwards
_helper_mutant('c19-lookup-helper-gets-tables-from-find', 'R1',
               "        return self._find(path, rv, pt, cv, params)\n",
               find_call='self._lookup(path, params, self._return_values, self._patterns, self._converters)',
               stub_call='self._lookup(path, params, self._return_values, self._patterns, self._converters)',
               sig="\n    def _lookup(self, path: List[str], params: Dict[str, Any], rv: Any, pt: Any, cv: Any) -> Any:\n")
# the stub routes through the helper with the stale tables it received
_helper_mutant('c19-lookup-helper-stub-passes-stale-tables', 'R1',
               "        return self._find(path, rv, pt, cv, params)\n",
               find_call='self._find(path, self._return_values, self._patterns, self._converters, params)',
               stub_call='self._lookup(path, params, _return_values, _patterns, _converters)',
               sig="\n    def _lookup(self, path: List[str], params: Dict[str, Any], rv: Any, pt: Any, cv: Any) -> Any:\n")
# R4 through the helper: the helper drops the caller's params dict
_helper_mutant('c19-lookup-helper-drops-params', 'R4',
               "        return self._find(path, self._return_values, self._patterns, self._converters, {})\n")
# R6 through the helper: the model still knows the tables
M2('c19-lookup-helper-and-compile-clears-in-place', 'C19', 'R6', [
    {'file': RT, 'old': _FIND_INLINE, 'new': "        node: Optional[CompiledRouterNode] = self._lookup(path, params)\n"},
    {'file': RT, 'old': _STUB_TAIL, 'new': "        return self._lookup(path, params)\n" + _HELPER_SIG +
     "        return self._find(path, self._return_values, self._patterns, self._converters, params)\n"},
    {'file': RT, 'old': "        self._patterns = []\n        self._converters = []\n\n        self._ast = _CxParent()\n",
     'new': "        self._patterns.clear()\n        self._converters = []\n\n        self._ast = _CxParent()\n"}], also=('C01',))

# R2 (b): stores through a local alias of shared state
MW = 'falcon/middleware.py'
_CORS_APPROVE = """                resp.set_header('Access-Control-Allow-Methods', allow)
                resp.set_header('Access-Control-Allow-Headers', allow_headers)
                resp.set_header('Access-Control-Max-Age', '86400')  # 24 hours
"""
_CORS_INIT_TAIL = "        self.allow_credentials = allow_credentials\n\n    def process_response("
_CORS_INIT_NEW = ("        self.allow_credentials = allow_credentials\n"
                  "        self._preflight_headers = {'Access-Control-Max-Age': '86400'}\n\n    def process_response(")
M2('c19-cors-fills-shared-preflight-dict-through-alias', 'C19', 'R2', [
    {'file': MW, 'old': _CORS_INIT_TAIL, 'new': _CORS_INIT_NEW},
    {'file': MW, 'old': _CORS_APPROVE, 'new': """                headers = self._preflight_headers
                headers['Access-Control-Allow-Methods'] = allow
                headers['Access-Control-Allow-Headers'] = allow_headers
                resp.set_headers(headers)
"""}], also=('C20',))
M2('c19-cors-updates-shared-preflight-dict-through-alias', 'C19', 'R2', [
    {'file': MW, 'old': _CORS_INIT_TAIL, 'new': _CORS_INIT_NEW},
    {'file': MW, 'old': _CORS_APPROVE, 'new': """                headers = self._preflight_headers
                if allow_headers:
                    headers = dict(headers)
                headers.update({'Access-Control-Allow-Methods': allow, 'Access-Control-Allow-Headers': allow_headers})
                resp.set_headers(headers)
"""}], also=('C20',))
M2('c19-cors-alias-of-alias-setdefault', 'C19', 'R2', [
    {'file': MW, 'old': _CORS_INIT_TAIL, 'new': _CORS_INIT_NEW},
    {'file': MW, 'old': _CORS_APPROVE, 'new': """                cached = self._preflight_headers
                headers = cached
                headers.setdefault('Access-Control-Allow-Methods', allow)
                headers.setdefault('Access-Control-Allow-Headers', allow_headers)
                resp.set_headers(headers)
"""}], also=('C20',))
M('c19-get-responder-records-path-through-alias', 'C19', 'R2', 'falcon/app.py',
  """        path = req.path
        method = 'WEBSOCKET' if req.is_websocket else req.method
""", """        path = req.path
        seen = self._static_routes
        seen.append(path)
        method = 'WEBSOCKET' if req.is_websocket else req.method
""")
M('c19-static-route-alias-attribute-store', 'C19', 'R2', 'falcon/routing/static.py',
  """        assert not kw
        if req.method == 'OPTIONS':""", """        assert not kw
        me = self
        stats = me._prefix if False else self.__dict__
        stats['last_path'] = req.path
        if req.method == 'OPTIONS':""")
# R2 (a): a second shipped middleware class is on the request path without being listed
M('c19-new-shipped-middleware-counts-requests', 'C19', 'R2', MW,
  "class CORSMiddleware(object):", """class RequestIDMiddleware:
    def __init__(self) -> None:
        self._ids: dict = {}

    def process_request(self, req: Request, resp: Response) -> None:
        self._current = req.get_header('X-Request-ID')

    def process_response(self, req: Request, resp: Response, resource: object, req_succeeded: bool) -> None:
        resp.set_header('X-Request-ID', self._current)


class CORSMiddleware(object):""")
M('c19-new-shipped-middleware-ws-alias-store', 'C19', 'R2', MW,
  "class CORSMiddleware(object):", """class WSAuditMiddleware:
    def __init__(self) -> None:
        self._open: dict = {}

    async def process_request_ws(self, req: Request, ws: Any) -> None:
        table = self._open
        table[req.path] = ws


class CORSMiddleware(object):""")

# ------------------------------------------------------------------ wave 8
RESP = 'falcon/responders.py'
MP = 'falcon/media/multipart.py'
AMP = 'falcon/asgi/multipart.py'
# R7 (seed s8-c19-1): one pre-built error instance, captured by the closure, raised for every rejected request of the route
M2('c19-default-405-raises-prebuilt-error', 'C19', 'R7', [
    {'file': RESP, 'old': "    if asgi:\n\n        async def method_not_allowed_responder_async(",
     'new': "    error = HTTPMethodNotAllowed(allowed_methods)\n\n    if asgi:\n\n        async def method_not_allowed_responder_async("},
    {'file': RESP, 'old': "            raise HTTPMethodNotAllowed(allowed_methods)\n\n        return method_not_allowed_responder_async",
     'new': "            raise error\n\n        return method_not_allowed_responder_async"},
    {'file': RESP, 'old': "        raise HTTPMethodNotAllowed(allowed_methods)\n\n    return method_not_allowed\n",
     'new': "        raise error\n\n    return method_not_allowed\n"},
], also=('C02',))
# only the ASGI responder shares the instance (the request path with the most interleaving points)
M2('c19-default-405-async-raises-prebuilt-error', 'C19', 'R7', [
    {'file': RESP, 'old': "    if asgi:\n\n        async def method_not_allowed_responder_async(",
     'new': "    if asgi:\n        error = HTTPMethodNotAllowed(allowed_methods)\n\n        async def method_not_allowed_responder_async("},
    {'file': RESP, 'old': "            raise HTTPMethodNotAllowed(allowed_methods)\n\n        return method_not_allowed_responder_async",
     'new': "            raise error\n\n        return method_not_allowed_responder_async"},
], also=('C02',))
# a module-level singleton 404
M2('c19-path-not-found-raises-module-singleton', 'C19', 'R7', [
    {'file': RESP, 'old': "def path_not_found(req: Request, resp: Response, **kwargs: Any) -> NoReturn:\n    \"\"\"Raise 404 HTTPRouteNotFound error.\"\"\"\n    raise HTTPRouteNotFound()\n",
     'new': "_NOT_FOUND = HTTPRouteNotFound()\n\n\ndef path_not_found(req: Request, resp: Response, **kwargs: Any) -> NoReturn:\n    \"\"\"Raise 404 HTTPRouteNotFound error.\"\"\"\n    raise _NOT_FOUND\n"},
], also=('C02', 'C04'))
# R2 (seed s8-c19-2): the per-request parser writes a value of ITS form into the handler-wide options object
M('c19-multipart-form-stores-charset-in-shared-options', 'C19', 'R2', MP,
  "            yield BodyPart(stream.delimit(delimiter), headers, self._parse_options)\n",
  """            part = BodyPart(stream.delimit(delimiter), headers, self._parse_options)
            if part.name == '_charset_' and part.filename is None:
                charset = part.get_text()
                if charset:
                    self._parse_options.default_charset = charset.strip()

            yield part
""", also=('C06', 'C13'))
# the same through a local alias, in the ASGI body part
M('c19-asgi-body-part-remembers-charset-through-alias', 'C19', 'R2', AMP,
  "        charset = options.get('charset', self._parse_options.default_charset)\n        try:\n            return (await self.get_data()).decode(charset)\n",
  "        opts = self._parse_options\n        charset = options.get('charset', opts.default_charset)\n        opts.default_charset = charset\n        try:\n            return (await self.get_data()).decode(charset)\n",
  also=('C06', 'C13'))
# a per-request body part registers a handler in the shared media-handler table
M('c19-body-part-mutates-shared-media-handlers', 'C19', 'R2', MP,
  "        if self._data is None:\n            max_size = self._parse_options.max_body_part_buffer_size + 1\n",
  "        if self._data is None:\n            self._parse_options.media_handlers.pop('text/plain', None)\n            max_size = self._parse_options.max_body_part_buffer_size + 1\n",
  also=('C06', 'C13', 'C11'))

# ------------------------------------------------------------------ wave 10
SYNC = 'falcon/util/sync.py'
# R1 (seed s10-c19-1): the compile lock is created lazily on the request path (check-then-act on shared state)
M2('c19-compile-lock-created-lazily', 'C19', 'R1', [
    {'file': RT, 'old': "        self._compile_lock = Lock()\n", 'new': "        self._compile_lock: Optional[Lock] = None\n"},
    {'file': RT, 'old': "        with self._compile_lock:\n            if self._find == self._compile_and_find:",
     'new': "        lock = self._compile_lock\n        if lock is None:\n            lock = self._compile_lock = Lock()\n        with lock:\n            if self._find == self._compile_and_find:"},
])
# variant: no local, the attribute itself is tested and filled
M2('c19-compile-lock-created-lazily-on-attribute', 'C19', 'R1', [
    {'file': RT, 'old': "        self._compile_lock = Lock()\n", 'new': "        self._compile_lock = None\n"},
    {'file': RT, 'old': "        with self._compile_lock:\n            if self._find == self._compile_and_find:",
     'new': "        if self._compile_lock is None:\n            self._compile_lock = Lock()\n        with self._compile_lock:\n            if self._find == self._compile_and_find:"},
])
# variant: created in the constructor, but every lazy compile installs a new one first
M('c19-compile-lock-replaced-on-request-path', 'C19', 'R1', RT,
  "        with self._compile_lock:\n            if self._find == self._compile_and_find:",
  "        self._compile_lock = Lock()\n        with self._compile_lock:\n            if self._find == self._compile_and_find:")
# R1: the re-check goes through a property that reads something else than the finder slot
M2('c19-recheck-through-property-of-other-state', 'C19', 'R1', [
    {'file': RT, 'old': "    @property\n    def finder_src(self) -> str:",
     'new': "    @property\n    def is_compiled(self) -> bool:\n        return self._ast is not None\n\n    @property\n    def finder_src(self) -> str:"},
    {'file': RT, 'old': "        with self._compile_lock:\n            if self._find == self._compile_and_find:",
     'new': "        with self._compile_lock:\n            if not self.is_compiled:"},
])
# R1: the property is right but it is consulted before the lock is taken
M2('c19-recheck-through-property-outside-lock', 'C19', 'R1', [
    {'file': RT, 'old': "    @property\n    def finder_src(self) -> str:",
     'new': "    @property\n    def is_compiled(self) -> bool:\n        return self._find != self._compile_and_find\n\n    @property\n    def finder_src(self) -> str:"},
    {'file': RT, 'old': """        with self._compile_lock:
            if self._find == self._compile_and_find:
                # NOTE(caselit): replace the find with the result of the
                # router compilation
                self._find = self._compile()
""", 'new': """        if not self.is_compiled:
            with self._compile_lock:
                self._find = self._compile()
"""},
])
# R8 (seed s10-c19-3): one single-thread executor PER wrapped callable
M2('c19-serial-executor-per-wrapper', 'C19', 'R8', [
    {'file': SYNC, 'old': "_one_thread_to_rule_them_all = ThreadPoolExecutor(max_workers=1)\n", 'new': ""},
    {'file': SYNC, 'old': "        executor = _one_thread_to_rule_them_all\n", 'new': "        executor = ThreadPoolExecutor(max_workers=1)\n"},
])
# one executor per CALL, built inside the wrapper
M('c19-serial-executor-per-call', 'C19', 'R8', SYNC,
  "        return await asyncio.get_running_loop().run_in_executor(\n            executor, partial(func, *args, **kwargs)\n        )\n\n    return wrapper\n\n\nasync def sync_to_async(",
  "        return await asyncio.get_running_loop().run_in_executor(\n            None if executor is None else ThreadPoolExecutor(max_workers=1), partial(func, *args, **kwargs)\n        )\n\n    return wrapper\n\n\nasync def sync_to_async(")
# the global executor gets more than one worker
M('c19-serial-executor-four-workers', 'C19', 'R8', SYNC,
  "_one_thread_to_rule_them_all = ThreadPoolExecutor(max_workers=1)", "_one_thread_to_rule_them_all = ThreadPoolExecutor(max_workers=4)")
# threadsafe=False falls through to the default pool (test inverted for False)
M('c19-serial-executor-not-selected-for-false', 'C19', 'R8', SYNC,
  "    if threadsafe is None or threadsafe:\n        executor = None  # Use default\n",
  "    if threadsafe is None or threadsafe is not None:\n        executor = None  # Use default\n")
# the wrapper ignores the chosen executor
M('c19-serial-executor-ignored-by-wrapper', 'C19', 'R8', SYNC,
  "run_in_executor(\n            executor, partial(func, *args, **kwargs)", "run_in_executor(\n            None, partial(func, *args, **kwargs)")


# ---------------------------------------------------------------------------
# Second preserving wave (k2-*): "refactoring + break" operators for every shape the rules now READ (the refactoring alone is silent).
# ---------------------------------------------------------------------------
SY = 'falcon/util/sync.py'
_K2_LOCKED = """        with self._compile_lock:
            if self._find == self._compile_and_find:
                # NOTE(caselit): replace the find with the result of the
                # router compilation
                self._find = self._compile()
"""
_K2_STUB_RET = """        return self._find(
            path, self._return_values, self._patterns, self._converters, params
        )
"""
_K2_RESET = """        self._return_values = []
        self._patterns = []
        self._converters = []

        self._ast = _CxParent()
"""
_K2_INSTCONV = "    def _instantiate_converter(\n"
_K2_EXEC_SEL = """    if threadsafe is None or threadsafe:
        executor = None  # Use default
    else:
        executor = _one_thread_to_rule_them_all
"""


def _k2_ensure(id, body, extra=(), also=()):
    """the lock moved into a same-class helper `_ensure_compiled()` that the stub calls (silent when the helper is right)"""
    M2(id, 'C19', 'R1', [{'file': RT, 'old': _K2_LOCKED, 'new': "        self._ensure_compiled()\n"},
                          {'file': RT, 'old': _K2_INSTCONV, 'new': "    def _ensure_compiled(self):\n" + body + "\n" + _K2_INSTCONV}] + list(extra), also=also)


_k2_ensure('c19-k2-ensure-helper-no-recheck', "        with self._compile_lock:\n            self._find = self._compile()\n")
_k2_ensure('c19-k2-ensure-helper-publishes-outside-lock',
           "        with self._compile_lock:\n            stale = self._find == self._compile_and_find\n        if stale:\n            self._find = self._compile()\n")
_k2_ensure('c19-k2-ensure-helper-stub-routes-with-stale-tables',
           "        with self._compile_lock:\n            if self._find == self._compile_and_find:\n                self._find = self._compile()\n",
           extra=[{'file': RT, 'old': _K2_STUB_RET, 'new': "        return self._find(path, _return_values, _patterns, _converters, params)\n"}], also=('C01',))
M2('c19-k2-ensure-helper-called-after-routing', 'C19', 'R1', [
    {'file': RT, 'old': _K2_LOCKED, 'new': ""},
    {'file': RT, 'old': _K2_STUB_RET,
     'new': "        result = self._find(path, self._return_values, self._patterns, self._converters, params)\n        self._ensure_compiled()\n        return result\n"},
    {'file': RT, 'old': _K2_INSTCONV, 'new': "    def _ensure_compiled(self):\n        with self._compile_lock:\n            if self._find == self._compile_and_find:\n"
                                             "                self._find = self._compile()\n\n" + _K2_INSTCONV}])
# acquire() / try / finally release() read as a lock region
M('c19-k2-acquire-release-publishes-after-release', 'C19', 'R1', RT, _K2_LOCKED, """        self._compile_lock.acquire()
        try:
            stale = self._find == self._compile_and_find
        finally:
            self._compile_lock.release()
        if stale:
            self._find = self._compile()
""")
# double-checked locking read (routing without the lock only where a test found the finder already published)
M('c19-k2-double-checked-without-inner-check', 'C19', 'R1', RT, _K2_LOCKED, """        if self._find == self._compile_and_find:
            with self._compile_lock:
                self._find = self._compile()
""")
M('c19-k2-double-checked-wrong-polarity', 'C19', 'R1', RT, _K2_LOCKED, """        if self._find != self._compile_and_find:
            with self._compile_lock:
                if self._find == self._compile_and_find:
                    self._find = self._compile()
""")
# table resets in a helper (same-class: k2-c19-2; module-level function handed `self`)
M2('c19-k2-reset-method-clears-in-place', 'C19', 'R6', [
    {'file': RT, 'old': _K2_RESET, 'new': "        self._reset_compiled_state()\n"},
    {'file': RT, 'old': _K2_INSTCONV, 'new': """    def _reset_compiled_state(self) -> None:
        self._return_values.clear()
        self._patterns = []
        self._converters = []
        self._ast = _CxParent()

""" + _K2_INSTCONV}], also=('C01',))
M2('c19-k2-reset-function-clears-in-place', 'C19', 'R6', [
    {'file': RT, 'old': _K2_RESET, 'new': "        _reset_tables(self)\n"},
    {'file': RT, 'old': "\nclass CompiledRouter:", 'new': """
def _reset_tables(router):
    router._return_values = []
    router._patterns.clear()
    router._patterns = []
    router._converters = []
    router._ast = _CxParent()


class CompiledRouter:"""}], also=('C01',))
M2('c19-k2-reset-function-forgets-a-table', 'C19', None, [
    {'file': RT, 'old': _K2_RESET, 'new': "        _reset_tables(self)\n"},
    {'file': RT, 'old': "\nclass CompiledRouter:", 'new': """
def _reset_tables(router):
    router._return_values = []
    router._converters = []
    router._ast = _CxParent()


class CompiledRouter:"""}], also=('C01',))
M('c19-k2-table-cleared-through-local-alias', 'C19', None, RT, _K2_RESET, """        patterns = self._patterns
        patterns.clear()
        self._return_values = []
        self._converters = []

        self._ast = _CxParent()
""", also=('C01',))
M('c19-k2-tuple-rebinding-plus-slice-delete', 'C19', None, RT, _K2_RESET, """        self._return_values, self._converters = [], []
        del self._patterns[:]

        self._ast = _CxParent()
""", also=('C01',))


# R8: the executor chosen by a module-level selector / one of two coroutine functions
def _k2_pick(id, body):
    M2(id, 'C19', 'R8', [{'file': SY, 'old': _K2_EXEC_SEL, 'new': "    executor = _pick_executor(threadsafe)\n"},
                          {'file': SY, 'old': "\ndef wrap_sync_to_async(\n", 'new': "\ndef _pick_executor(threadsafe):\n" + body + "\n\ndef wrap_sync_to_async(\n"}])


_k2_pick('c19-k2-selector-returns-fresh-executor', "    if threadsafe is None or threadsafe:\n        return None\n    return ThreadPoolExecutor(max_workers=1)\n")
_k2_pick('c19-k2-selector-inverted', "    if threadsafe is None or threadsafe:\n        return _one_thread_to_rule_them_all\n    return None\n")
_k2_pick('c19-k2-selector-falls-off-the-end', "    if threadsafe:\n        return _one_thread_to_rule_them_all\n")
M('c19-k2-two-wrappers-serial-one-uses-default-pool', 'C19', 'R8', SY, _K2_EXEC_SEL + """
    @wraps(func)
    async def wrapper(*args: Any, **kwargs: Any) -> Any:
        return await asyncio.get_running_loop().run_in_executor(
            executor, partial(func, *args, **kwargs)
        )

    return wrapper
""", """    if threadsafe is None or threadsafe:

        @wraps(func)
        async def wrapper(*args: Any, **kwargs: Any) -> Any:
            return await asyncio.get_running_loop().run_in_executor(
                None, partial(func, *args, **kwargs)
            )

        return wrapper

    @wraps(func)
    async def serial_wrapper(*args: Any, **kwargs: Any) -> Any:
        return await asyncio.get_running_loop().run_in_executor(
            None, partial(func, *args, **kwargs)
        )

    return serial_wrapper
""")
# R4: params built by a helper
M2('c19-k2-params-helper-hands-out-shared-dict', 'C19', None, [
    {'file': RT, 'old': "        params: Dict[str, Any] = {}\n", 'new': "        params: Dict[str, Any] = _new_params()\n"},
    {'file': RT, 'old': "\nclass CompiledRouter:", 'new': "\n_PARAMS: dict = {}\n\n\ndef _new_params():\n    return _PARAMS\n\n\nclass CompiledRouter:"}], also=('C01',))
# R3: a hoisted literal table is fine while it is only read through copies; mutated (directly / through a local alias) it is shared state
_K2_HEAD = """        src_lines = [
            'def find(path, return_values, patterns, converters, params):',
            _TAB_STR + 'path_len = len(path)',
        ]
"""
_K2_HEAD_DEF = {'file': RT, 'old': "_TAB_STR = ' ' * 4\n",
                'new': "_TAB_STR = ' ' * 4\n_FINDER_HEAD = [\n    'def find(path, return_values, patterns, converters, params):',\n    _TAB_STR + 'path_len = len(path)',\n]\n"}
M2('c19-k2-hoisted-table-appended-through-alias', 'C19', 'R3', [_K2_HEAD_DEF, {'file': RT, 'old': _K2_HEAD, 'new': "        src_lines = _FINDER_HEAD\n"}], also=('C01',))
M2('c19-k2-hoisted-table-mutated', 'C19', 'R3', [_K2_HEAD_DEF, {'file': RT, 'old': _K2_HEAD, 'new': "        _FINDER_HEAD.append('x')\n        src_lines = list(_FINDER_HEAD)\n"}],
   also=('C01',))
# the lock taken in a module-level function handed the router (read as a method view)
M2('c19-k2-lock-function-no-recheck', 'C19', 'R1', [
    {'file': RT, 'old': _K2_LOCKED, 'new': "        _ensure_compiled(self)\n"},
    {'file': RT, 'old': "\nclass CompiledRouter:", 'new': "\ndef _ensure_compiled(router):\n    with router._compile_lock:\n        router._find = router._compile()\n\n\nclass CompiledRouter:"}])
M2('c19-k2-lock-function-publishes-placeholder-first', 'C19', 'R1', [
    {'file': RT, 'old': _K2_LOCKED, 'new': "        _ensure_compiled(self)\n"},
    {'file': RT, 'old': "\nclass CompiledRouter:", 'new': "\ndef _ensure_compiled(router):\n    with router._compile_lock:\n        if router._find == router._compile_and_find:\n"
                                                       "            router._find = None\n            router._find = router._compile()\n\n\nclass CompiledRouter:"}])
# k3-c12-2: a constructor-only helper of a shared instance may store into self; the same helper also called per request may not
_K2_JSON_BIND = """        # PERF(kgriffs): Test dumps once up front so we can set the
        #     proper serialize implementation.
        result = self._dumps({'message': 'Hello World'})
"""
M2('c19-k3-ctor-helper-also-called-per-request', 'C19', 'R3', [
    {'file': 'falcon/media/json.py', 'old': _K2_JSON_BIND, 'new': "        self._bind_serializers()\n\n    def _bind_serializers(self) -> None:\n" + _K2_JSON_BIND},
    {'file': 'falcon/media/json.py', 'old': "    def _deserialize(self, data: bytes) -> Any:\n        if not data:\n",
     'new': "    def _deserialize(self, data: bytes) -> Any:\n        self._bind_serializers()\n        if not data:\n"}], also=('C12',))
