"""Mutation operators for C20 (CORS policy).

Note: R3 fires on the unmodified tree (finding F6: Allow-Credentials survives
the preflight withdrawal).  The R3 operators therefore *also* repair F6 in the
same edit (or are independent of it), so that the rule fires because of the
mutation and not because of the standing finding.
"""

from .mutants import M, M2

MW = 'falcon/middleware.py'

# ---- R1: a grant above a gate
M('c20-expose-above-allowed-gate', 'C20', 'R1', MW,
  """        if self.allow_origins != '*' and origin not in self.allow_origins:
            return

""", """        if self.expose_headers:
            resp.set_header('Access-Control-Expose-Headers', self.expose_headers)

        if self.allow_origins != '*' and origin not in self.allow_origins:
            return

""")
M('c20-expose-above-origin-gate', 'C20', 'R1', MW,
  """        origin = req.get_header('Origin')
        if origin is None:
            return
""", """        origin = req.get_header('Origin')
        if self.expose_headers:
            resp.set_header('Access-Control-Expose-Headers', self.expose_headers)
        if origin is None:
            return
""")
M('c20-allowed-gate-does-not-return', 'C20', 'R1', MW,
  """        if self.allow_origins != '*' and origin not in self.allow_origins:
            return
""", """        if self.allow_origins != '*' and origin not in self.allow_origins:
            pass
""")
M('c20-allowed-gate-weakened', 'C20', 'R1', MW,
  "if self.allow_origins != '*' and origin not in self.allow_origins:",
  "if not self.allow_origins:")

# ---- R2: credentials / echoed origin / constructor
M('c20-drop-set-origin-kill', 'C20', 'R2', MW,
  """                set_origin = origin
                resp.set_header('Access-Control-Allow-Credentials', 'true')
""", """                resp.set_header('Access-Control-Allow-Credentials', 'true')
""")
M('c20-credentials-for-any-allowed-origin', 'C20', 'R2', MW,
  "if self.allow_credentials == '*' or origin in self.allow_credentials:",
  "if self.allow_credentials:")
M('c20-credentials-outside-origin-block', 'C20', 'R2', MW,
  """            if self.allow_credentials == '*' or origin in self.allow_credentials:
                set_origin = origin
                resp.set_header('Access-Control-Allow-Credentials', 'true')
            resp.set_header('Access-Control-Allow-Origin', set_origin)
""", """            resp.set_header('Access-Control-Allow-Origin', set_origin)
        if self.allow_credentials == '*' or origin in self.allow_credentials:
            resp.set_header('Access-Control-Allow-Credentials', 'true')
""")
M('c20-wildcard-echo-swapped', 'C20', 'R2', MW,
  "set_origin = '*' if self.allow_origins == '*' else origin",
  "set_origin = origin if self.allow_origins == '*' else '*'")
M('c20-init-star-in-credentials-accepted', 'C20', 'R2', MW,
  """            allow_credentials = frozenset(allow_credentials)
            if '*' in allow_credentials:
                raise ValueError(""", """            allow_credentials = frozenset(allow_credentials)
            if '*' in allow_credentials and False:
                raise ValueError(""")
M('c20-init-star-in-origins-not-detected', 'C20', 'R2', MW,
  """            self.allow_origins = frozenset(allow_origins)
            if '*' in self.allow_origins:
""", """            self.allow_origins = frozenset(allow_origins)
            if '*' == self.allow_origins:
""")

# ---- R3: withdrawal (each edit also deletes Allow-Credentials, i.e. repairs F6)
M('c20-withdraw-misses-max-age', 'C20', 'R3', MW,
  "                resp.delete_header('Access-Control-Max-Age')\n",
  "                resp.delete_header('Access-Control-Allow-Credentials')\n")
M('c20-withdraw-misses-allow-origin', 'C20', 'R3', MW,
  "                resp.delete_header('Access-Control-Allow-Origin')\n",
  "                resp.delete_header('Access-Control-Allow-Credentials')\n")
M('c20-allow-not-removed-when-approved', 'C20', 'R3', MW,
  """            allow = resp.get_header('Allow')
            resp.delete_header('Allow')
""", """            allow = resp.get_header('Allow')
            if allow is None:
                resp.delete_header('Allow')
                resp.delete_header('Access-Control-Allow-Credentials')
""")
M2('c20-expose-granted-after-withdraw', 'C20', 'R3', [
    {'file': MW, 'old': """        if self.expose_headers:
            resp.set_header('Access-Control-Expose-Headers', self.expose_headers)

        if (
""", 'new': """        if (
"""},
    {'file': MW, 'old': """                resp.set_header('Access-Control-Max-Age', '86400')  # 24 hours
""", 'new': """                resp.set_header('Access-Control-Max-Age', '86400')  # 24 hours

        if self.expose_headers:
            resp.set_header('Access-Control-Expose-Headers', self.expose_headers)
"""},
    {'file': MW, 'old': "                resp.delete_header('Access-Control-Allow-Origin')\n",
     'new': "                resp.delete_header('Access-Control-Allow-Origin')\n                resp.delete_header('Access-Control-Allow-Credentials')\n"},
])

# ---- R4: approve branch, wiring, Allow sources
M('c20-approve-on-failed-request', 'C20', 'R4', MW,
  """            req_succeeded
            and req.method == 'OPTIONS'
""", """            req.method == 'OPTIONS'
""")
M('c20-approve-any-method', 'C20', 'R4', MW,
  """            and req.method == 'OPTIONS'
            and req.get_header('Access-Control-Request-Method')
""", """            and req.get_header('Access-Control-Request-Method')
""")
M('c20-approve-methods-from-request', 'C20', 'R4', MW,
  "resp.set_header('Access-Control-Allow-Methods', allow)",
  "resp.set_header('Access-Control-Allow-Methods', req.get_header('Access-Control-Request-Method'))")
M('c20-max-age-outside-approve', 'C20', 'R4', MW,
  """                resp.set_header('Access-Control-Max-Age', '86400')  # 24 hours
""", """                pass
        resp.set_header('Access-Control-Max-Age', '86400')  # 24 hours
""")
M('c20-cors-enable-drops-instance', 'C20', 'R4', 'falcon/app.py',
  "                    middleware = [middleware, cm]", "                    middleware = [middleware]")
M('c20-cors-enable-second-instance', 'C20', 'R4', 'falcon/app.py',
  """                    middleware = list(middleware)  # type: ignore[arg-type]
                    middleware.append(cm)  # type: ignore[arg-type]
""", """                    middleware = list(middleware)  # type: ignore[arg-type]
                    middleware.append(cm)  # type: ignore[arg-type]
                    middleware.append(CORSMiddleware())
""")
M('c20-duplicate-check-skipped-for-lists', 'C20', 'R4', 'falcon/app.py',
  """            if (
                self._cors_enable
                and len(
""", """            if len(middleware) > 1:
                pass
            elif (
                self._cors_enable
                and len(
""")
M('c20-duplicate-check-does-not-raise', 'C20', 'R4', 'falcon/app.py',
  """                raise ValueError(
                    'CORSMiddleware is not allowed in conjunction with '
                    'cors_enable (which already constructs one instance)'
                )
""", """                middleware = middleware[:-1]
""")
M('c20-static-options-without-allow', 'C20', 'R4', 'falcon/routing/static.py',
  """            resp.set_header('Allow', 'GET')
            resp.set_header('Content-Length', '0')
""", """            resp.set_header('Content-Length', '0')
""")
M('c20-default-options-without-allow', 'C20', 'R4', 'falcon/responders.py',
  """            resp.status = HTTP_200
            resp.set_header('Allow', allowed)
            resp.set_header('Content-Length', '0')

        return options_responder_async
""", """            resp.status = HTTP_200
            resp.set_header('Content-Length', '0')

        return options_responder_async
""", also=('C02',))

# ---- R3/R4: the preflight branch is entered for EVERY successful OPTIONS carrying Access-Control-Request-Method (wave 6, s6-c20-2)
_ACRM_OLD = "            and req.get_header('Access-Control-Request-Method')\n"
# the seed: "validation" of the client's token against the method table; PURGE / patch skip both approve and withdraw
M2('c20-preflight-only-for-known-request-method', 'C20', 'R3', [
    {'file': MW, 'old': "from .request import Request\n", 'new': "from .constants import COMBINED_METHODS\nfrom .request import Request\n"},
    {'file': MW, 'old': _ACRM_OLD, 'new': "            and req.get_header('Access-Control-Request-Method') in COMBINED_METHODS\n"},
])
M('c20-preflight-only-for-listed-request-method', 'C20', 'R3', MW, _ACRM_OLD,
  "            and req.get_header('Access-Control-Request-Method') in ('GET', 'HEAD', 'POST', 'PUT', 'DELETE', 'PATCH')\n")
M('c20-preflight-only-for-one-request-method', 'C20', 'R4', MW, _ACRM_OLD,
  "            and req.get_header('Access-Control-Request-Method') == 'GET'\n")
# the approve half alone: a preflight for an unlisted method that finds an Allow set is neither approved nor has Allow removed
M2('c20-preflight-skips-unlisted-method-after-withdraw-test', 'C20', 'R4', [
    {'file': MW, 'old': "from .request import Request\n", 'new': "from .constants import COMBINED_METHODS\nfrom .request import Request\n"},
    {'file': MW, 'old': """            allow = resp.get_header('Allow')
            resp.delete_header('Allow')
""", 'new': """            allow = resp.get_header('Allow')
            resp.delete_header('Allow')
            if allow and req.get_header('Access-Control-Request-Method') not in COMBINED_METHODS:
                return
"""},
])

# ------------------------------------------------------------------ wave 8
CONSTS = 'falcon/constants.py'
AREQ = 'falcon/asgi/request.py'
# R1 sub-clause (seed s8-c20-1): a header the CORS decision reads becomes last-wins on ASGI
M('c20-origin-becomes-singleton-header', 'C20', 'R1', CONSTS, "        'max-forwards',\n        'referer',\n", "        'max-forwards',\n        'origin',\n        'referer',\n")
M('c20-request-method-header-becomes-singleton', 'C20', 'R1', CONSTS, "        'max-forwards',\n        'referer',\n",
  "        'max-forwards',\n        'access-control-request-method',\n        'referer',\n")
# the ASGI request adds its own last-wins names next to the shared constant
M('c20-asgi-request-last-wins-for-origin', 'C20', 'R1', AREQ,
  "_SINGLETON_HEADERS_BYTESTR = frozenset([h.encode() for h in SINGLETON_HEADERS])\n",
  "_SINGLETON_HEADERS_BYTESTR = frozenset([h.encode() for h in SINGLETON_HEADERS]) | frozenset([b'origin'])\n")
# R4 (seed s8-c20-2): something else stands in for the success flag
_PREFLIGHT = "        if (\n            req_succeeded\n            and req.method == 'OPTIONS'\n"
M('c20-preflight-on-ok-status-instead-of-success-flag', 'C20', 'R4', MW, _PREFLIGHT,
  "        if (\n            200 <= resp.status_code <= 299\n            and req.method == 'OPTIONS'\n")
M('c20-preflight-on-status-below-400', 'C20', 'R4', MW, _PREFLIGHT,
  "        if (\n            resp.status_code < 400\n            and req.method == 'OPTIONS'\n")
M('c20-preflight-success-flag-or-ok-status', 'C20', 'R4', MW, _PREFLIGHT,
  "        if (\n            (req_succeeded or 200 <= resp.status_code <= 299)\n            and req.method == 'OPTIONS'\n")

# ---- auto-mutation seed sa-am00072 (R4): the duplicate-CORS refusal applies only under cors_enable
_DUP_GUARD_HEAD = """            if (
                self._cors_enable
                and len(
"""
M('c20-duplicate-refusal-unconditional', 'C20', 'R4', 'falcon/app.py', _DUP_GUARD_HEAD, "            if (\n                len(\n")
M('c20-duplicate-refusal-flag-or', 'C20', 'R4', 'falcon/app.py', _DUP_GUARD_HEAD,
  "            if (\n                self._cors_enable\n                or len(\n")
M('c20-duplicate-refusal-flag-negated', 'C20', 'R4', 'falcon/app.py', _DUP_GUARD_HEAD,
  "            if (\n                not self._cors_enable\n                and len(\n")

# ---- wave 9 (s9-c20-1), R6 = C02 R4 shared: the Allow header the preflight copies into Access-Control-Allow-Methods is SET by the
# automatic OPTIONS responder to the resource's own method list (append merges a provisional Allow written earlier in the cycle)
_RESPONDERS = 'falcon/responders.py'
_SET_ALLOW = "            resp.set_header('Allow', allowed)\n"
M2('c20-sync-options-responder-appends-allow', 'C20', 'R6',
   [{'file': _RESPONDERS, 'old': "        resp.set_header('Allow', allowed)\n        resp.set_header('Content-Length', '0')\n\n    return options_responder\n",
     'new': "        resp.append_header('Allow', allowed)\n        resp.set_header('Content-Length', '0')\n\n    return options_responder\n"}], also=('C02',))
M('c20-async-options-responder-appends-allow', 'C20', 'R6', _RESPONDERS, _SET_ALLOW, "            resp.append_header('Allow', allowed)\n", also=('C02',))
M2('c20-both-options-responders-append-allow', 'C20', 'R6',
   [{'file': _RESPONDERS, 'old': "resp.set_header('Allow', allowed)", 'new': "resp.append_header('Allow', allowed)", 'count': 2}], also=('C02',))
M2('c20-options-responder-allow-from-live-list', 'C20', 'R6',
   [{'file': _RESPONDERS, 'old': "resp.set_header('Allow', allowed)", 'new': "resp.set_header('Allow', ', '.join(allowed_methods))", 'count': 2}], also=('C02',))


# ---------------------------------------------------------------------------
# Second preserving wave (k2-*): every shape the rules now READ has a "refactoring + break" operator - the refactoring alone is silent
# (verified on scratch copies), the same refactoring with the clause broken is reported.
# ---------------------------------------------------------------------------
_APP = 'falcon/app.py'
_LOG_IMPORT = {'file': MW, 'old': "from typing import Any", 'new': "import logging\nfrom typing import Any"}
_LOG_DEF = {'file': MW, 'old': "class CORSMiddleware(object):", 'new': "_logger = logging.getLogger(__name__)\n\n\nclass CORSMiddleware(object):"}
_GATE2 = """        if self.allow_origins != '*' and origin not in self.allow_origins:
            return
"""
_PRE = """        if (
            req_succeeded
            and req.method == 'OPTIONS'
            and req.get_header('Access-Control-Request-Method')
        ):
"""
_SETS = """                resp.set_header('Access-Control-Allow-Methods', allow)
                resp.set_header('Access-Control-Allow-Headers', allow_headers)
                resp.set_header('Access-Control-Max-Age', '86400')  # 24 hours
"""
_AM_TEST = """            if (
                self._cors_enable
                and len(
                    [
                        mc
                        for mc in self._unprepared_middleware + middleware  # type: ignore[operator]
                        if isinstance(mc, CORSMiddleware)
                    ]
                )
                > 1
            ):
                raise ValueError(
                    'CORSMiddleware is not allowed in conjunction with '
                    'cors_enable (which already constructs one instance)'
                )
"""
_ADD_ROUTE = "    def add_route(self, uri_template: str, resource: object, **kwargs: Any) -> None:"
_RAISE = "                raise ValueError('CORSMiddleware is not allowed in conjunction with cors_enable')\n"

# k2-c20-4 (module-level logger calls are no-op statements) + a withdrawal replaced by the log call / the refusing return dropped
M2('c20-k2-logging-replaces-a-withdrawal', 'C20', 'R3', [_LOG_IMPORT, _LOG_DEF, {
    'file': MW, 'old': "                resp.delete_header('Access-Control-Allow-Credentials')\n",
    'new': "                _logger.debug('CORS: preflight from %r denied (no Allow)', origin)\n"}])
M2('c20-k2-logging-replaces-the-refusing-return', 'C20', 'R1', [_LOG_IMPORT, _LOG_DEF, {
    'file': MW, 'old': _GATE2,
    'new': "        if self.allow_origins != '*' and origin not in self.allow_origins:\n            _logger.debug('CORS: origin %r is not allowed', origin)\n"}])

# duplicate-CORS refusal read through single-assignment locals, one-expression helpers, a refusing helper (App.add_middleware)
M('c20-k2-refusal-local-list-counts-incoming-only', 'C20', 'R4', _APP, _AM_TEST,
  "            cors = [mc for mc in middleware if isinstance(mc, CORSMiddleware)]\n            if self._cors_enable and len(cors) > 1:\n" + _RAISE)
M('c20-k2-refusal-nested-count-without-flag', 'C20', 'R4', _APP, _AM_TEST,
  "            count = len([mc for mc in self._unprepared_middleware + middleware if isinstance(mc, CORSMiddleware)])\n            if count > 1:\n" + _RAISE)
M('c20-k2-refusal-registered-alias-unused', 'C20', 'R4', _APP, _AM_TEST,
  "            registered = self._unprepared_middleware\n            if self._cors_enable and len([mc for mc in middleware if isinstance(mc, CORSMiddleware)]) > 1:\n" + _RAISE)
M2('c20-k2-count-helper-counts-incoming-only', 'C20', 'R4', [
    {'file': _APP, 'old': _AM_TEST, 'new': "            if self._cors_enable and self._count_cors(middleware) > 1:\n" + _RAISE},
    {'file': _APP, 'old': _ADD_ROUTE, 'new': "    def _count_cors(self, middleware):\n        return len([mc for mc in middleware if isinstance(mc, CORSMiddleware)])\n\n" + _ADD_ROUTE}])
M2('c20-k2-refusing-method-counts-incoming-only', 'C20', 'R4', [
    {'file': _APP, 'old': _AM_TEST, 'new': "            self._refuse_second_cors(middleware)\n"},
    {'file': _APP, 'old': _ADD_ROUTE, 'new': """    def _refuse_second_cors(self, middleware):
        if not self._cors_enable:
            return
        if sum(1 for mc in middleware if isinstance(mc, CORSMiddleware)) > 1:
            raise ValueError('CORSMiddleware is not allowed in conjunction with cors_enable')

""" + _ADD_ROUTE}])
M2('c20-k2-refusing-function-without-flag', 'C20', 'R4', [
    {'file': _APP, 'old': _AM_TEST, 'new': "            _refuse_second_cors(self._unprepared_middleware, middleware)\n"},
    {'file': _APP, 'old': "\nclass App:", 'new': """
def _refuse_second_cors(registered, incoming):
    if len([mc for mc in registered + incoming if isinstance(mc, CORSMiddleware)]) > 1:
        raise ValueError('CORSMiddleware is not allowed in conjunction with cors_enable')


class App:"""}])
M2('c20-k2-refusing-method-called-after-the-write', 'C20', 'R4', [
    {'file': _APP, 'old': _AM_TEST, 'new': ""},
    {'file': _APP, 'old': "            self._unprepared_middleware += middleware  # type: ignore[arg-type]\n",
     'new': "            self._unprepared_middleware += middleware  # type: ignore[arg-type]\n            self._refuse_second_cors([])\n"},
    {'file': _APP, 'old': _ADD_ROUTE, 'new': """    def _refuse_second_cors(self, middleware):
        if not self._cors_enable:
            return
        if sum(1 for mc in self._unprepared_middleware + middleware if isinstance(mc, CORSMiddleware)) > 1:
            raise ValueError('CORSMiddleware is not allowed in conjunction with cors_enable')

""" + _ADD_ROUTE}])

# cors_enable wiring of App.__init__: must-analysis "the collection handed to add_middleware holds the instance"
_TRY_WIRING = """                try:
                    # NOTE(kgriffs): Check to see if middleware is an
                    #   iterable, and if so, append the CORSMiddleware
                    #   instance.
                    middleware = list(middleware)  # type: ignore[arg-type]
                    middleware.append(cm)  # type: ignore[arg-type]
                except TypeError:
                    # NOTE(kgriffs): Assume the middleware kwarg references
                    #   a single middleware component.
                    middleware = [middleware, cm]
"""
M('c20-k2-wiring-flag-refactoring-single-component-loses-instance', 'C20', 'R4', _APP, _TRY_WIRING, """                single = False
                try:
                    components = list(middleware)
                except TypeError:
                    single = True
                if single:
                    middleware = [middleware]
                else:
                    components.append(cm)
                    middleware = components
""")
M('c20-k2-wiring-rebinding-after-append', 'C20', 'R4', _APP, "                    middleware.append(cm)  # type: ignore[arg-type]\n",
  "                    middleware.append(cm)  # type: ignore[arg-type]\n                    middleware = middleware[:-1]\n")
M('c20-k2-wiring-empty-tuple', 'C20', 'R4', _APP, "                middleware = [cm]\n", "                middleware = ()\n")

# interpreter vocabulary: bool(), small literal collections, walrus, bound-method locals, loops over literal pairs, keyword arguments, cast, staticmethod helpers
M2('c20-k2-bool-helper-drops-success-flag', 'C20', 'R4', [
    {'file': MW, 'old': _PRE, 'new': "        if self._is_preflight(req, req_succeeded):\n"},
    {'file': MW, 'old': "    async def process_response_async", 'new': """    def _is_preflight(self, req, req_succeeded):
        return req.method == 'OPTIONS' and bool(req.get_header('Access-Control-Request-Method'))

    async def process_response_async"""}])
M('c20-k2-small-tuple-admits-get', 'C20', 'R4', MW, "            and req.method == 'OPTIONS'\n", "            and req.method in ('OPTIONS', 'GET')\n")
M('c20-k2-walrus-origin-gate-dropped', 'C20', 'R1', MW, """        origin = req.get_header('Origin')
        if origin is None:
            return
""", "        if (origin := req.get_header('Origin')) is None:\n            pass\n")
M('c20-k2-bound-method-local-above-gate', 'C20', 'R1', MW, """        origin = req.get_header('Origin')
        if origin is None:
            return
""", """        origin = req.get_header('Origin')
        if origin is None:
            return
        set_header = resp.set_header
        if self.expose_headers:
            set_header('Access-Control-Expose-Headers', self.expose_headers)
""")
M('c20-k2-pairs-loop-missing-max-age', 'C20', 'R4', MW, _SETS, """                for name, value in (
                    ('Access-Control-Allow-Methods', allow),
                    ('Access-Control-Allow-Headers', allow_headers),
                ):
                    resp.set_header(name, value)
""")
M('c20-k2-pairs-loop-wrong-methods-value', 'C20', 'R4', MW, _SETS, """                for name, value in (
                    ('Access-Control-Allow-Methods', allow_headers),
                    ('Access-Control-Allow-Headers', allow_headers),
                    ('Access-Control-Max-Age', '86400'),
                ):
                    resp.set_header(name, value)
""")
M('c20-k2-keyword-delete-wrong-header', 'C20', 'R3', MW, "                resp.delete_header('Access-Control-Allow-Credentials')\n",
  "                resp.delete_header(name='Access-Control-Allow-Origin')\n")
M2('c20-k2-cast-wrong-value', 'C20', 'R4', [
    {'file': MW, 'old': "from typing import Any", 'new': "from typing import cast, Any"},
    {'file': MW, 'old': "                resp.set_header('Access-Control-Allow-Methods', allow)\n",
     'new': "                resp.set_header('Access-Control-Allow-Methods', cast(str, allow_headers))\n"}])
M2('c20-k2-staticmethod-gate-inverted', 'C20', None, [
    {'file': MW, 'old': _GATE2, 'new': "        if self._origin_refused(self.allow_origins, origin):\n            return\n"},
    {'file': MW, 'old': "    async def process_response_async", 'new': """    @staticmethod
    def _origin_refused(allow_origins, origin):
        return allow_origins != '*' and origin in allow_origins

    async def process_response_async"""}])
M('c20-k2-assert-replaces-credentials-test', 'C20', 'R2', MW,
  "            if self.allow_credentials == '*' or origin in self.allow_credentials:\n",
  "            assert self.allow_credentials is not None\n            if True:\n")

# k3-c02-2: the default OPTIONS responders compose the response in a shared module-level helper; R4 looks through it
_RSP = 'falcon/responders.py'
_OPT_BODY = """            resp.status = HTTP_200
            resp.set_header('Allow', allowed)
            resp.set_header('Content-Length', '0')
"""
_OPT_BODY_SYNC = """        resp.status = HTTP_200
        resp.set_header('Allow', allowed)
        resp.set_header('Content-Length', '0')
"""


def _k3_options_helper(id, body, also=('C02',)):
    M2(id, 'C20', 'R4', [
        {'file': _RSP, 'old': _OPT_BODY, 'new': "            _set_options_response(resp, allowed)\n"},
        {'file': _RSP, 'old': _OPT_BODY_SYNC, 'new': "        _set_options_response(resp, allowed)\n"},
        {'file': _RSP, 'old': "\ndef create_default_options(", 'new': "\ndef _set_options_response(resp, allowed):\n" + body + "\n\ndef create_default_options("}], also=also)


_k3_options_helper('c20-k3-options-helper-forgets-allow', "    resp.status = HTTP_200\n    resp.set_header('Content-Length', '0')\n")
_k3_options_helper('c20-k3-options-helper-allow-on-one-branch', "    resp.status = HTTP_200\n    if allowed:\n        resp.set_header('Allow', allowed)\n    resp.set_header('Content-Length', '0')\n")

# static route: the OPTIONS branch read through equivalent spellings of the test and through an Allow-setting helper
_ST = 'falcon/routing/static.py'
_ST_OPT = """        if req.method == 'OPTIONS':
            # it's likely a CORS request. Set the allow header to the appropriate value.
            resp.set_header('Allow', 'GET')
            resp.set_header('Content-Length', '0')
            return
"""
M('c20-k3-static-inverted-test-without-allow', 'C20', 'R4', _ST, _ST_OPT + "\n",
  "        if req.method != 'OPTIONS':\n            pass\n        else:\n            resp.set_header('Content-Length', '0')\n            return\n\n")
M('c20-k3-static-method-local-membership-without-allow', 'C20', 'R4', _ST, _ST_OPT,
  "        method = req.method\n        if method in ('OPTIONS',):\n            resp.set_header('Content-Length', '0')\n            return\n")
M2('c20-k3-static-options-helper-without-allow', 'C20', 'R4', [
    {'file': _ST, 'old': _ST_OPT, 'new': "        if req.method == 'OPTIONS':\n            self._answer_options(resp)\n            return\n"},
    {'file': _ST, 'old': "    def __call__(self, req: Request, resp: Response, **kw: Any) -> None:",
     'new': "    def _answer_options(self, resp):\n        resp.set_header('Content-Length', '0')\n\n    def __call__(self, req: Request, resp: Response, **kw: Any) -> None:"}])
