"""Mutation operators: one realistic breakage per rule instance.

Each entry edits a scratch copy of falcon/ by exact text replacement; the
pattern must occur exactly `count` times (default 1) or the operator is
reported as skipped (pattern no longer applies).
"""

MUTANTS = []


def M(id, prop, rule, file, old, new, count=1, occurrence=None, also=()):
    MUTANTS.append({'id': id, 'property': prop, 'rule': rule, 'file': file, 'old': old, 'new': new,
                    'count': count, 'occurrence': occurrence, 'also': list(also)})


def M2(id, prop, rule, edits, also=()):
    MUTANTS.append({'id': id, 'property': prop, 'rule': rule, 'edits': edits, 'also': list(also)})




def _load_all():
    import importlib
    import os

    here = os.path.dirname(os.path.abspath(__file__))
    for fn in sorted(os.listdir(here)):
        if fn.startswith('m_c') and fn.endswith('.py'):
            importlib.import_module('sa.selftest.' + fn[:-3])


_load_all()
