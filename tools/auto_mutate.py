#!/usr/bin/env python3
"""Systematic first-order mutation of the code the properties are anchored in.

A development aid (not a registered check): it generates small syntactic
mutants inside the anchored line ranges of properties.jsonl (mapped from the
pinned commit to the current tree), runs the static checks of the properties
anchored there against each mutant (scratch copy, nothing executed) and, for
the mutants no check reports, runs the pinned test suite in a pure-Python copy
of the repository.  What survives both is the triage list: either equivalent /
irrelevant, or a gap in the rules.

  gen    -> /tmp/am/mutants.json
  check  -> /tmp/am/checked.json      (static verdict per mutant and property)
  test   -> /tmp/am/tested.json       (suite verdict for the statically silent ones)
"""

import argparse
import ast
import contextlib
import difflib
import io
import json
import os
import re
import shutil
import subprocess
import sys
import tempfile
from concurrent.futures import ProcessPoolExecutor

HERE = os.path.dirname(os.path.dirname(os.path.abspath(__file__)))
sys.path.insert(0, HERE)
sys.setrecursionlimit(10000)
PINNED = 'd3c4189'
OUT = os.environ.get('AM_OUT', '/tmp/am')


def anchor_ranges():
    """{file: [(lo, hi, prop)]} in line numbers of the pinned commit"""
    out = {}
    for ln in open(os.path.join(HERE, 'properties.jsonl')):
        d = json.loads(ln)
        for m in d['anchors']['mechanism']:
            cur = None
            for part in re.split(r'[;,]', m['where']):
                part = part.strip()
                mm = re.match(r'^(\S+\.pyx?):(.*)$', part)
                if mm:
                    cur, rng = mm.group(1), mm.group(2).strip()
                else:
                    rng = part
                if not cur or not cur.endswith('.py') or not rng:
                    continue
                r = re.match(r'^(\d+)(?:-(\d+))?$', rng)
                if not r:
                    continue
                lo = int(r.group(1))
                hi = int(r.group(2) or lo)
                out.setdefault(cur, []).append((lo, hi, d['id']))
    return out


def line_map(path):
    old = subprocess.run(['git', '-C', '/repo', 'show', '%s:%s' % (PINNED, path)], capture_output=True, text=True).stdout.splitlines()
    new = open(os.path.join('/repo', path), encoding='utf-8').read().splitlines()
    sm = difflib.SequenceMatcher(None, old, new, autojunk=False)
    mp = {}
    for tag, i1, i2, j1, j2 in sm.get_opcodes():
        if tag == 'equal':
            for k in range(i2 - i1):
                mp[i1 + k + 1] = j1 + k + 1
        else:
            for k in range(i2 - i1):
                mp[i1 + k + 1] = min(j1 + k, max(j2 - 1, j1)) + 1
    return mp, len(new)


_CMP = {ast.Lt: '<=', ast.LtE: '<', ast.Gt: '>=', ast.GtE: '>', ast.Eq: '!=', ast.NotEq: '==', ast.Is: 'is not', ast.IsNot: 'is',
        ast.In: 'not in', ast.NotIn: 'in'}
_CMPNODE = {'<=': ast.LtE, '<': ast.Lt, '>=': ast.GtE, '>': ast.Gt, '!=': ast.NotEq, '==': ast.Eq, 'is not': ast.IsNot, 'is': ast.Is,
            'not in': ast.NotIn, 'in': ast.In}


def gen_file(path, ranges):
    src = open(os.path.join('/repo', path), encoding='utf-8').read()
    lines = src.splitlines(keepends=True)
    tree = ast.parse(src)
    mp, nnew = line_map(path)
    spans = []
    for lo, hi, prop in ranges:
        a = mp.get(lo, lo)
        b = mp.get(hi, hi)
        spans.append((min(a, b), max(a, b) + 2, prop))

    def props_at(n):
        return sorted({p for lo, hi, p in spans if lo <= n.lineno <= hi})

    offs = [0]
    for ln in lines:
        offs.append(offs[-1] + len(ln.encode('utf-8')))
    bsrc = src.encode('utf-8')

    def seg(n):
        return offs[n.lineno - 1] + n.col_offset, offs[n.end_lineno - 1] + n.end_col_offset

    docstrings = set()
    for n in ast.walk(tree):
        if isinstance(n, (ast.FunctionDef, ast.AsyncFunctionDef, ast.ClassDef, ast.Module)) and n.body \
                and isinstance(n.body[0], ast.Expr) and isinstance(n.body[0].value, ast.Constant) and isinstance(n.body[0].value.value, str):
            docstrings.add(id(n.body[0].value))
            docstrings.add(id(n.body[0]))
    # attribute docstrings (string expression statements)
    for n in ast.walk(tree):
        if isinstance(n, ast.Expr) and isinstance(n.value, ast.Constant) and isinstance(n.value.value, str):
            docstrings.add(id(n.value))
            docstrings.add(id(n))
    in_func = set()
    for f in ast.walk(tree):
        if isinstance(f, (ast.FunctionDef, ast.AsyncFunctionDef)):
            for x in ast.walk(f):
                in_func.add(id(x))
    annotations = set()
    for n in ast.walk(tree):
        for fld in ('annotation', 'returns'):
            a = getattr(n, fld, None)
            if a is not None:
                for x in ast.walk(a):
                    annotations.add(id(x))
        if isinstance(n, (ast.FunctionDef, ast.AsyncFunctionDef)):
            for d in n.decorator_list:
                for x in ast.walk(d):
                    annotations.add(id(x))

    muts = []

    def add(n, op, new_text):
        ps = props_at(n)
        if not ps:
            return
        s, e = seg(n)
        old_text = bsrc[s:e].decode('utf-8')
        if old_text == new_text:
            return
        muts.append({'file': path, 'line': n.lineno, 'op': op, 'start': s, 'end': e, 'old': old_text, 'new': new_text, 'props': ps})

    for n in ast.walk(tree):
        if id(n) in annotations or id(n) not in in_func and not isinstance(n, ast.Assign):
            continue
        if isinstance(n, ast.Compare) and len(n.ops) == 1 and type(n.ops[0]) in _CMP:
            c = ast.Compare(left=n.left, ops=[_CMPNODE[_CMP[type(n.ops[0])]]()], comparators=n.comparators)
            add(n, 'cmp', ast.unparse(c))
            if isinstance(n.ops[0], (ast.Lt, ast.LtE, ast.Gt, ast.GtE)):
                flip = {ast.Lt: ast.Gt, ast.LtE: ast.GtE, ast.Gt: ast.Lt, ast.GtE: ast.LtE}[type(n.ops[0])]
                add(n, 'cmpflip', ast.unparse(ast.Compare(left=n.left, ops=[flip()], comparators=n.comparators)))
        elif isinstance(n, (ast.If, ast.While)) and id(n) in in_func:
            t = n.test
            if isinstance(t, ast.UnaryOp) and isinstance(t.op, ast.Not):
                add(t, 'unnot', ast.unparse(t.operand))
            elif not isinstance(t, ast.Compare):
                add(t, 'negate', 'not (%s)' % ast.unparse(t))
        elif isinstance(n, ast.IfExp):
            add(n.test, 'negate', 'not (%s)' % ast.unparse(n.test))
        elif isinstance(n, ast.BoolOp):
            other = ast.Or() if isinstance(n.op, ast.And) else ast.And()
            add(n, 'boolop', '(%s)' % ast.unparse(ast.BoolOp(op=other, values=n.values)))
            if len(n.values) == 2:
                add(n, 'booldrop', ast.unparse(n.values[0]))
                add(n, 'booldrop2', ast.unparse(n.values[1]))
        elif isinstance(n, ast.Constant) and id(n) not in docstrings and id(n) in in_func:
            v = n.value
            if v is True or v is False:
                add(n, 'const', repr(not v))
            elif isinstance(v, int) and not isinstance(v, bool) and abs(v) < 10000:
                add(n, 'const', repr(v + 1))
                if v != 0:
                    add(n, 'const-', repr(v - 1))
        elif isinstance(n, (ast.Expr, ast.Assign, ast.AugAssign, ast.Delete, ast.Raise)) and id(n) in in_func and id(n) not in docstrings:
            if isinstance(n, ast.Expr) and not isinstance(n.value, (ast.Call, ast.Await, ast.Yield, ast.YieldFrom)):
                continue
            if isinstance(n, ast.Assign) and isinstance(n.value, ast.Constant) and len(n.targets) == 1 and isinstance(n.targets[0], ast.Name):
                pass
            add(n, 'del', 'pass')
        elif isinstance(n, ast.Break):
            add(n, 'brk', 'continue')
        elif isinstance(n, ast.Continue):
            add(n, 'cont', 'break')
        elif isinstance(n, ast.Return) and n.value is not None and not (isinstance(n.value, ast.Constant) and n.value.value is None):
            pass
        elif isinstance(n, ast.BinOp) and isinstance(n.op, (ast.Add, ast.Sub)) and id(n) in in_func:
            # arithmetic only: both sides not obviously strings
            if any(isinstance(x, ast.Constant) and isinstance(x.value, (str, bytes)) for x in (n.left, n.right)) or \
                    any(isinstance(x, ast.JoinedStr) for x in (n.left, n.right)):
                continue
            other = ast.Sub() if isinstance(n.op, ast.Add) else ast.Add()
            add(n, 'arith', '(%s)' % ast.unparse(ast.BinOp(left=n.left, op=other, right=n.right)))
        elif isinstance(n, ast.UnaryOp) and isinstance(n.op, ast.Not):
            pass
    # keep only mutants that compile
    good = []
    for m in muts:
        new_src = (bsrc[:m['start']] + m['new'].encode('utf-8') + bsrc[m['end']:]).decode('utf-8')
        try:
            compile(new_src, path, 'exec')
        except SyntaxError:
            continue
        good.append(m)
    return good


def cmd_gen(args):
    os.makedirs(OUT, exist_ok=True)
    allm = []
    for path, ranges in sorted(anchor_ranges().items()):
        if not os.path.isfile(os.path.join('/repo', path)):
            continue
        ms = gen_file(path, ranges)
        allm += ms
    # dedupe
    seen = set()
    uniq = []
    for m in allm:
        k = (m['file'], m['start'], m['end'], m['new'])
        if k in seen:
            continue
        seen.add(k)
        m['id'] = 'am%05d' % len(uniq)
        uniq.append(m)
    json.dump(uniq, open(os.path.join(OUT, 'mutants.json'), 'w'), indent=0)
    from collections import Counter
    print(len(uniq), 'mutants', Counter(m['op'] for m in uniq))
    print(Counter(p for m in uniq for p in m['props']))


def apply_mut(root, m):
    p = os.path.join(root, m['file'])
    b = open(p, 'rb').read()
    assert b[m['start']:m['end']].decode('utf-8') == m['old'], (m['id'], 'source drifted')
    open(p, 'wb').write(b[:m['start']] + m['new'].encode('utf-8') + b[m['end']:])
    return b


_BASE = None


def _check_one(m):
    from sa.selftest import driver
    from sa.cli import run_property
    from sa.model import Project, AnalysisError
    tmp = tempfile.mkdtemp(prefix='am_chk_')
    res = {'id': m['id'], 'fired': {}, 'exit2': []}
    try:
        driver._copy_tree('/repo', tmp)
        apply_mut(tmp, m)
        try:
            project = Project(tmp)
        except AnalysisError as e:
            res['error'] = str(e)
            return res
        evdir = os.path.join(tmp, 'evidence')
        for p in m['props']:
            buf = io.StringIO()
            with contextlib.redirect_stdout(buf):
                rc = run_property(p, 'quick', tmp, evdir, project)
            newk = driver._violation_keys(evdir, p) - _BASE.get(p, set())
            if newk:
                res['fired'][p] = sorted('%s %s' % (r_, k) for (r_, k) in newk)[:2]
            elif rc == 2:
                res['exit2'].append(p)
    except Exception as e:  # noqa: BLE001
        res['error'] = '%s: %s' % (type(e).__name__, e)
    finally:
        shutil.rmtree(tmp, ignore_errors=True)
    return res


def _init_base(base):
    global _BASE
    _BASE = base


def _baseline():
    from sa.selftest import driver
    from sa.cli import run_property
    from sa.model import Project
    tmp = tempfile.mkdtemp(prefix='am_base_')
    base = {}
    project = Project('/repo')
    for i in range(1, 21):
        p = 'C%02d' % i
        with contextlib.redirect_stdout(io.StringIO()):
            run_property(p, 'quick', '/repo', tmp, project)
        base[p] = driver._violation_keys(tmp, p)
    shutil.rmtree(tmp, ignore_errors=True)
    return base


def cmd_check_slice(args):
    """worker: handles mutants[k::n], appends one JSON line per mutant"""
    global _BASE
    muts = json.load(open(os.path.join(OUT, 'mutants.json')))
    k, n = args.slice
    mine = muts[k::n]
    outp = os.path.join(OUT, 'checked_%02d.jsonl' % k)
    done = set()
    if os.path.isfile(outp):
        for ln in open(outp):
            done.add(json.loads(ln)['id'])
    cur = os.path.join(OUT, 'current_%02d' % k)
    # a mutant that killed the previous incarnation of this worker is recorded as a crash
    if os.path.isfile(cur):
        cid = open(cur).read().strip()
        if cid and cid not in done:
            with open(outp, 'a') as fh:
                fh.write(json.dumps({'id': cid, 'fired': {}, 'exit2': [], 'error': 'worker crashed'}) + '\n')
            done.add(cid)
    _BASE = _baseline()
    for m in mine:
        if m['id'] in done:
            continue
        open(cur, 'w').write(m['id'])
        r = _check_one(m)
        with open(outp, 'a') as fh:
            fh.write(json.dumps(r) + '\n')
    open(cur, 'w').write('')


def cmd_check(args):
    n = args.jobs
    for f in os.listdir(OUT):
        if f.startswith(('checked_', 'current_')) and not args.resume:
            os.remove(os.path.join(OUT, f))
    for attempt in range(30):
        procs = [subprocess.Popen([sys.executable, os.path.abspath(__file__), 'check-slice', '--slice', str(k), str(n)]) for k in range(n)]
        rcs = [p.wait() for p in procs]
        if all(rc == 0 for rc in rcs):
            break
        print('restart after worker failure', rcs, flush=True)
    out = []
    for k in range(n):
        for ln in open(os.path.join(OUT, 'checked_%02d.jsonl' % k)):
            out.append(json.loads(ln))
    json.dump(out, open(os.path.join(OUT, 'checked.json'), 'w'), indent=0)
    det = sum(1 for r in out if r['fired'])
    print('%d mutants, %d reported by a check of an anchoring property, %d silent/exit2' % (len(out), det, len(out) - det))


def _worker_dir(i):
    d = os.path.join(OUT, 'w%02d' % i)
    if not os.path.isdir(d):
        os.makedirs(d)
        subprocess.run('git -C /repo archive HEAD | tar -x -C %s' % d, shell=True, check=True)
    return d


def _test_one(arg):
    m, slot = arg
    d = _worker_dir(slot)
    orig = apply_mut(d, m)
    try:
        env = dict(os.environ, PYTHONPATH=d, PYTHONDONTWRITEBYTECODE='1')
        r = subprocess.run(['/venv/bin/python', '-m', 'pytest', '-q', '-x', '-p', 'no:cacheprovider', '--timeout=300',
                            '--ignore=tests/test_uri_templates.py', 'tests'], cwd=d, env=env, capture_output=True, text=True, timeout=1500)
        tail = r.stdout.strip().splitlines()[-1] if r.stdout.strip() else ''
        return {'id': m['id'], 'rc': r.returncode, 'tail': tail[-160:]}
    except subprocess.TimeoutExpired:
        return {'id': m['id'], 'rc': -1, 'tail': 'timeout'}
    finally:
        open(os.path.join(d, m['file']), 'wb').write(orig)


def _test_chunk(arg):
    slot, ms = arg
    return [_test_one((m, slot)) for m in ms]


def cmd_test(args):
    muts = {m['id']: m for m in json.load(open(os.path.join(OUT, 'mutants.json')))}
    checked = json.load(open(os.path.join(OUT, 'checked.json')))
    done = {}
    tp = os.path.join(OUT, 'tested.json')
    if os.path.isfile(tp):
        done = {r['id']: r for r in json.load(open(tp))}
    todo = [muts[r['id']] for r in checked if not r['fired'] and 'error' not in r and r['id'] not in done]
    if args.limit:
        todo = todo[:args.limit]
    print('to test:', len(todo), flush=True)
    jobs = args.jobs
    chunks = [(i, todo[i::jobs]) for i in range(jobs)]
    out = list(done.values())
    with ProcessPoolExecutor(max_workers=jobs) as ex:
        for rs in ex.map(_test_chunk, chunks):
            out += rs
    json.dump(out, open(tp, 'w'), indent=0)
    surv = [r for r in out if r['rc'] == 0]
    print('%d tested, %d survive the suite' % (len(out), len(surv)))


if __name__ == '__main__':
    ap = argparse.ArgumentParser()
    ap.add_argument('cmd', choices=['gen', 'check', 'check-slice', 'test'])
    ap.add_argument('--slice', type=int, nargs=2)
    ap.add_argument('--resume', action='store_true')
    ap.add_argument('--jobs', type=int, default=12)
    ap.add_argument('--limit', type=int, default=0)
    a = ap.parse_args()
    {'gen': cmd_gen, 'check': cmd_check, 'check-slice': cmd_check_slice, 'test': cmd_test}[a.cmd](a)
