#!/usr/bin/env python3
"""Refresh the generated tables of DESIGN.md (between the BEGIN/END markers):
seeded changes x checks, per-property rule/obligation/mutant counts."""

import json
import os
import re
import subprocess
import sys

HERE = os.path.dirname(os.path.dirname(os.path.abspath(__file__)))
sys.path.insert(0, HERE)


def replace_block(text, name, body):
    b, e = '<!-- %s-BEGIN -->' % name, '<!-- %s-END -->' % name
    if b not in text:
        raise SystemExit('marker %s missing in DESIGN.md' % b)
    i, j = text.index(b) + len(b), text.index(e)
    return text[:i] + '\n' + body.rstrip('\n') + '\n' + text[j:]


def main():
    out = os.environ.get('SEEDED_RESULTS') or ''
    if not (out and os.path.isfile(out)):
        # no fresh result file handed in: run every seeded change now (takes a while)
        out = os.path.join(HERE, 'seeded', '_last_results.json')
        subprocess.run([sys.executable, os.path.join(HERE, 'tools', 'run_seeded.py'), '--json', out], check=True, stdout=subprocess.DEVNULL)
    res = json.load(open(out))
    rows = ['| seed | property | what the change does / what it needs to manifest | verdict | reported by (rule :: construct) |', '|---|---|---|---|---|']
    caught = 0
    for r in res:
        meta = json.load(open(os.path.join(HERE, 'seeded', r['id'], 'meta.json')))
        needs = meta.get('needs_to_manifest', '').replace('|', '/')
        tgt = r['property']
        fired = r['fired'].get(tgt, [])
        others = sorted(p for p in r['fired'] if p != tgt)
        rep = '; '.join(x.replace('|', '/')[:150] for x in fired[:2])
        if others:
            rep += (' — also ' + ', '.join(others)) if rep else ('only ' + ', '.join(others))
        if r['status'] == 'caught':
            caught += 1
        rows.append('| %s | %s | %s | %s | %s |' % (r['id'], tgt, needs[:260], r['status'], rep))
    rows.append('')
    rows.append('%d of %d seeded changes are reported by the check of the property they target (exit 1, VIOLATION line naming the construct).' % (caught, len(res)))
    design = open(os.path.join(HERE, 'DESIGN.md')).read()
    design = replace_block(design, 'SEEDED-TABLE', '\n'.join(rows))

    from sa.selftest.mutants import MUTANTS
    from collections import Counter
    mc = Counter(m['property'] for m in MUTANTS)
    rows = ['| property | rules (obligations on today\'s tree) | obligations | mutation operators | known findings |', '|---|---|---|---|---|']
    for i in range(1, 21):
        p = 'C%02d' % i
        ev = json.load(open(os.path.join(HERE, 'evidence', p + '.json')))
        rules = ev['coverage']['rules']
        rows.append('| %s | %s | %d | %d | %d |' % (p, ', '.join('%s (%d)' % (k, v['instances']) for k, v in sorted(rules.items(), key=lambda kv: int(kv[0][1:]))),
                                               ev['coverage']['obligations'], mc.get(p, 0), len(ev['coverage'].get('known_findings_matched', []))))
    design = replace_block(design, 'RULE-TABLE', '\n'.join(rows))
    # rule catalogue: every registered rule with the clause it decides
    cat = []
    for i in range(1, 21):
        p = 'C%02d' % i
        ev = json.load(open(os.path.join(HERE, 'evidence', p + '.json')))
        cat.append('**%s** (%d obligations on today\'s tree)' % (p, ev['coverage']['obligations']))
        cat.append('')
        for k, v in sorted(ev['coverage']['rules'].items(), key=lambda kv: int(re.sub(r'\D', '', kv[0]) or 0)):
            cat.append('* %s — %s (%d instances, floor %s)' % (k, str(v.get('doc', '')).replace('\n', ' '), v['instances'], v.get('floor', '-')))
        cat.append('')
    design = replace_block(design, 'RULE-CATALOGUE', '\n'.join(cat))
    open(os.path.join(HERE, 'DESIGN.md'), 'w').write(design)
    print('DESIGN.md tables refreshed: %d/%d seeds caught' % (caught, len(res)))


if __name__ == '__main__':
    main()
