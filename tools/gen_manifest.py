#!/usr/bin/env python3
"""Regenerate /verif/MANIFEST.json from the claims table (sa/claims.py) and the
rule modules that exist.  A property without a rule module is listed under
not_applicable ("not claimed") so the manifest is valid at every commit."""

import json
import os
import sys

HERE = os.path.dirname(os.path.dirname(os.path.abspath(__file__)))
sys.path.insert(0, HERE)

from sa.claims import CLAIMS  # noqa: E402

BASELINE = ('cd /repo && /venv/bin/python -m pytest -ra -q -p no:cacheprovider --timeout=900 '
            '--continue-on-collection-errors tests')


def main():
    checks = []
    na = []
    for pid in ['C%02d' % i for i in range(1, 21)]:
        c = CLAIMS[pid]
        has = os.path.isfile(os.path.join(HERE, 'sa', 'rules', pid.lower() + '.py'))
        if not has or c.get('not_applicable'):
            na.append({'property_id': pid, 'reason': c.get('not_applicable') or 'no static rule armed for this property yet (see DESIGN.md section 3); not claimed'})
            continue
        text = c['text']
        evp = os.path.join(HERE, 'evidence', pid + '.json')
        if os.path.isfile(evp):
            # keep the claim current with what is registered: every rule with the clause it decides
            import re as _re
            rules = json.load(open(evp))['coverage']['rules']
            ks = sorted(rules, key=lambda k: int(_re.sub(r'\D', '', k) or 0))
            text += ' Rules registered as of the last run (id: clause): ' + '; '.join(
                '%s: %s' % (k, str(rules[k].get('doc', '')).replace('\n', ' ')) for k in ks) + '.'
        checks.append({
            'property_id': pid,
            'quick_cmd': './check %s --tier quick' % pid,
            'thorough_cmd': './check %s --tier thorough' % pid,
            'evidence_file': '/verif/evidence/%s.json' % pid,
            'replay_cmd_template': './check %s --replay {path}' % pid,
            'engine': 'sa',
            'level_claimed': {
                'category': 'other',
                'text': text,
                'design_ref': 'DESIGN.md section 3, %s' % pid,
            },
            'level_note': c['note'],
            'technique': c['technique'],
        })
    man = {
        'version': 1,
        'setup_cmd': 'true',
        'hooks': {
            'guard': 'FALCON_VERIF',
            'enable': 'no source hooks are needed: the checks read /repo/falcon/**/*.py as text (FALCON_VERIF is recorded but unused)',
            'baseline_off_cmd': BASELINE,
            'source_commits': [],
            'add_only': True,
        },
        'engines': [{
            'name': 'sa',
            'path': '/verif/sa',
            'serves_properties': [c['property_id'] for c in checks],
            'kind_free_text': 'repository-specific static analysis on Python ast: source model + C3 MRO + callee resolution, '
                              'statement CFG with exceptional edges, dominance/reachability/typestate, event projection to '
                              'NFA/DFA with language equality for sibling comparison, exception-escape summaries, constant folding, '
                              'linear symbolic evaluation; nothing from falcon is imported or executed',
        }],
        'checks': checks,
        'not_applicable': na,
        'notes': 'Every check decides structural clauses (necessary conditions) of its property, listed in level_claimed.text; '
                 'the behavioural statement as a whole is not decided. Exit 2 + ANALYSIS-ERROR means the analysis could not run '
                 '(vanished anchor / unknown idiom), never a verdict. Known findings: /verif/known_findings.json.',
    }
    with open(os.path.join(HERE, 'MANIFEST.json'), 'w') as f:
        json.dump(man, f, indent=1)
    print('MANIFEST.json: %d checks, %d not_applicable' % (len(checks), len(na)))


if __name__ == '__main__':
    main()
