#!/usr/bin/env python3
"""Verify a candidate BEHAVIOUR-PRESERVING change and keep it under /verif/preserving/<id>/.

usage: tools/import_seed.py <candidate dir with patch.diff + demo.py [+ notes.md]> <seed id> <property> [--needs "..."]

Verification (all in a scratch git worktree of /repo's base commit under /tmp,
removed afterwards; falcon runs as pure Python there because compiled modules
are git-ignored):
  1. check.py passes on the clean tree;  2. patch applies;  3. check.py still
  passes with it;  4. the pinned test suite gives the same counts.
These are negative controls: every property check must stay silent on them
(tools/run_seeded.py --dir preserving --keep).
"""

import argparse
import json
import os
import re
import shutil
import subprocess
import sys
import tempfile

HERE = os.path.dirname(os.path.dirname(os.path.abspath(__file__)))
BASE_COMMIT = 'd3c4189'  # the pinned snapshot the seeded patches are written against
SUITE_EXPECT = '3440 passed, 491 skipped'


def sh(cmd, cwd=None, env=None, timeout=1800):
    e = dict(os.environ)
    if env:
        e.update(env)
    r = subprocess.run(cmd, shell=True, cwd=cwd, env=e, capture_output=True, text=True, timeout=timeout)
    return r.returncode, (r.stdout + r.stderr)


def main():
    ap = argparse.ArgumentParser()
    ap.add_argument('cand')
    ap.add_argument('seed_id')
    ap.add_argument('property')
    ap.add_argument('--needs', default='')
    ap.add_argument('--skip-suite', action='store_true')
    ap.add_argument('--base', default=BASE_COMMIT, help='commit the patch is written against')
    ap.add_argument('--expect', default=SUITE_EXPECT)
    ap.add_argument('--note', default='')
    a = ap.parse_args()
    wt = tempfile.mkdtemp(prefix='wt_verify_')
    os.rmdir(wt)
    rc, out = sh('git -C /repo worktree add -q --detach %s %s' % (wt, a.base))
    if rc:
        print('worktree failed', out)
        return 2
    ran = []
    ok = True
    try:
        env = {'PYTHONPATH': wt}
        demo = os.path.join(a.cand, 'check.py')
        rc0, out0 = sh('/venv/bin/python %s' % demo, cwd='/tmp', env=env, timeout=600)
        ran.append({'cmd': 'PYTHONPATH=<clean worktree> /venv/bin/python check.py', 'exit': rc0, 'tail': out0[-300:]})
        if rc0 != 0:
            print('REJECT: check.py fails on the clean tree (exit %d)\n%s' % (rc0, out0[-800:]))
            ok = False
        rc1, out1 = sh('git apply %s' % os.path.join(a.cand, 'patch.diff'), cwd=wt)
        ran.append({'cmd': 'git apply patch.diff', 'exit': rc1, 'tail': out1[-300:]})
        if rc1 != 0:
            print('REJECT: patch does not apply\n%s' % out1[-800:])
            ok = False
        if ok:
            rc2, out2 = sh('/venv/bin/python %s' % demo, cwd='/tmp', env=env, timeout=600)
            ran.append({'cmd': 'PYTHONPATH=<patched worktree> /venv/bin/python check.py', 'exit': rc2, 'tail': out2[-600:]})
            if rc2 != 0:
                print('REJECT: check.py fails with the change (not property-preserving?)\n%s' % out2[-800:])
                ok = False
        if ok and not a.skip_suite:
            rc3, out3 = sh('/venv/bin/python -m pytest -q -p no:cacheprovider --timeout=900 --continue-on-collection-errors tests 2>&1 | tail -3', cwd=wt, env=env)
            tail = out3.strip().splitlines()[-1] if out3.strip() else ''
            ran.append({'cmd': 'PYTHONPATH=<patched worktree> pytest -q --continue-on-collection-errors tests', 'tail': tail})
            if a.expect not in tail or ' failed' in tail:
                print('REJECT: test suite differs with the change: %s' % tail)
                ok = False
        if ok:
            dst = os.path.join(HERE, 'preserving', a.seed_id)
            os.makedirs(dst, exist_ok=True)
            shutil.copy(os.path.join(a.cand, 'patch.diff'), os.path.join(dst, 'patch.diff'))
            shutil.copy(demo, os.path.join(dst, 'check.py'))
            if os.path.isfile(os.path.join(a.cand, 'notes.md')):
                shutil.copy(os.path.join(a.cand, 'notes.md'), os.path.join(dst, 'notes.md'))
            files = re.findall(r'^\+\+\+ b/(\S+)', open(os.path.join(dst, 'patch.diff')).read(), re.M)
            meta = {'property': a.property, 'id': a.seed_id, 'files': files, 'needs_to_manifest': a.needs,
                    'base_commit': a.base, 'verified': ran, 'note': a.note,
                    'kind': 'behaviour-preserving (negative control)', 'origin': 'independent sub-agent given only the property text and a scratch worktree'}
            json.dump(meta, open(os.path.join(dst, 'meta.json'), 'w'), indent=1)
            print('KEPT %s (%s): %s' % (a.seed_id, a.property, ', '.join(files)))
    finally:
        sh('git -C /repo worktree remove --force %s' % wt)
        shutil.rmtree(wt, ignore_errors=True)
    return 0 if ok else 1


if __name__ == '__main__':
    sys.exit(main())
