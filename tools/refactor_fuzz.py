#!/usr/bin/env python3
"""Negative controls: behaviour-preserving rewrites of the whole package must
never make a check exit 1 (exit 2 = an anchored name vanished is acceptable
and reported).

variants:
  unparse   every module replaced by ast.unparse(ast.parse(src)): comments,
            blank lines, quoting, line breaks and parenthesisation all change
  rename    additionally every *local* variable (not parameters, not names
            declared global/nonlocal, not names captured by a nested def) of
            every function is renamed  x -> x_rn
  docstrip  additionally all docstrings are removed
  augassign every `x op= y` becomes `x = x op y`
  cmpswap   every single comparison `a < b` becomes `b > a` (== and != operands swapped)
  ifinvert  every two-armed `if c: A else: B` becomes `if not c: B else: A`
  swapstmts adjacent call-free, data-independent simple assignments are swapped
  elifnest  every `elif` becomes `else: if ...` followed by `pass`
"""

import ast
import builtins
import os
import shutil
import subprocess
import sys
import tempfile

HERE = os.path.dirname(os.path.dirname(os.path.abspath(__file__)))


class LocalRenamer(ast.NodeTransformer):
    def visit_FunctionDef(self, node):
        return self._func(node)

    visit_AsyncFunctionDef = visit_FunctionDef

    def _func(self, node):
        # first transform nested defs with their own scopes
        params = {a.arg for a in node.args.posonlyargs + node.args.args + node.args.kwonlyargs}
        if node.args.vararg:
            params.add(node.args.vararg.arg)
        if node.args.kwarg:
            params.add(node.args.kwarg.arg)
        stores, blocked = set(), set()
        nested_names = set()

        def scan(n, top=True):
            for c in ast.iter_child_nodes(n):
                if isinstance(c, (ast.FunctionDef, ast.AsyncFunctionDef, ast.Lambda, ast.ClassDef)):
                    if isinstance(c, (ast.FunctionDef, ast.AsyncFunctionDef, ast.ClassDef)):
                        blocked.add(c.name)
                    # every name used inside a nested scope is blocked (closure capture)
                    for x in ast.walk(c):
                        if isinstance(x, ast.Name):
                            nested_names.add(x.id)
                    continue
                if isinstance(c, (ast.ListComp, ast.SetComp, ast.DictComp, ast.GeneratorExp)):
                    for x in ast.walk(c):
                        if isinstance(x, ast.Name):
                            nested_names.add(x.id)
                    continue
                if isinstance(c, ast.Name) and isinstance(c.ctx, (ast.Store, ast.Del)):
                    stores.add(c.id)
                if isinstance(c, (ast.Global, ast.Nonlocal)):
                    blocked.update(c.names)
                if isinstance(c, ast.ExceptHandler) and c.name:
                    blocked.add(c.name)
                if isinstance(c, (ast.Import, ast.ImportFrom)):
                    for a in c.names:
                        blocked.add((a.asname or a.name).split('.')[0])
                scan(c, False)

        scan(node)
        ren = {n for n in stores if n not in params and n not in blocked and n not in nested_names
               and not n.startswith('__') and not hasattr(builtins, n)}
        mapping = {n: n + '_rn' for n in ren}

        class R(ast.NodeTransformer):
            def visit_Name(self, n):
                if n.id in mapping:
                    return ast.copy_location(ast.Name(id=mapping[n.id], ctx=n.ctx), n)
                return n

            def visit_FunctionDef(self, n):
                return n

            visit_AsyncFunctionDef = visit_FunctionDef
            visit_Lambda = visit_FunctionDef
            visit_ClassDef = visit_FunctionDef
            visit_ListComp = visit_FunctionDef
            visit_SetComp = visit_FunctionDef
            visit_DictComp = visit_FunctionDef
            visit_GeneratorExp = visit_FunctionDef

        r = R()
        node.body = [r.visit(s) if not isinstance(s, (ast.FunctionDef, ast.AsyncFunctionDef, ast.ClassDef)) else s for s in node.body]
        # recurse into nested defs
        self.generic_visit(node)
        return node


class DocStripper(ast.NodeTransformer):
    def _strip(self, node):
        self.generic_visit(node)
        b = node.body
        if b and isinstance(b[0], ast.Expr) and isinstance(b[0].value, ast.Constant) and isinstance(b[0].value.value, str):
            node.body = b[1:] or [ast.Pass()]
        return node

    visit_FunctionDef = visit_AsyncFunctionDef = visit_ClassDef = visit_Module = _strip


class AugExpand(ast.NodeTransformer):
    """x op= y  ->  x = x op y   (targets that are plain names / attribute chains)"""

    def visit_AugAssign(self, n):
        self.generic_visit(n)
        t = n.target
        if isinstance(t, (ast.Name, ast.Attribute)) and not any(isinstance(x, ast.Call) for x in ast.walk(t)):
            load = ast.parse(ast.unparse(t), mode='eval').body
            return ast.copy_location(ast.Assign(targets=[t], value=ast.BinOp(left=load, op=n.op, right=n.value)), n)
        return n


_SWAP = {ast.Lt: ast.Gt, ast.Gt: ast.Lt, ast.LtE: ast.GtE, ast.GtE: ast.LtE, ast.Eq: ast.Eq, ast.NotEq: ast.NotEq}


class CmpSwap(ast.NodeTransformer):
    """a < b -> b > a for single comparisons of side-effect-free operands"""

    def visit_Compare(self, n):
        self.generic_visit(n)
        if len(n.ops) == 1 and type(n.ops[0]) in _SWAP and not any(isinstance(x, (ast.Call, ast.Await, ast.NamedExpr)) for x in ast.walk(n)):
            return ast.copy_location(ast.Compare(left=n.comparators[0], ops=[_SWAP[type(n.ops[0])]()], comparators=[n.left]), n)
        return n


class IfInvert(ast.NodeTransformer):
    """if c: A else: B  ->  if not c: B else: A   (only when both branches exist and B is not an elif chain)"""

    def visit_If(self, n):
        self.generic_visit(n)
        if n.orelse and not (len(n.orelse) == 1 and isinstance(n.orelse[0], ast.If)):
            return ast.copy_location(ast.If(test=ast.UnaryOp(op=ast.Not(), operand=n.test), body=n.orelse, orelse=n.body), n)
        return n


class SwapStmts(ast.NodeTransformer):
    """swap adjacent, call-free, data-independent simple assignments in every block"""

    @staticmethod
    def _simple(st):
        if not isinstance(st, (ast.Assign, ast.AnnAssign)) or getattr(st, 'value', None) is None:
            return None
        if any(isinstance(x, (ast.Call, ast.Await, ast.Yield, ast.YieldFrom, ast.Subscript, ast.NamedExpr)) for x in ast.walk(st)):
            return None
        tg = st.targets if isinstance(st, ast.Assign) else [st.target]
        if not all(isinstance(t, ast.Name) for t in tg):
            return None
        writes = {t.id for t in tg}
        reads = {x.id for x in ast.walk(st.value) if isinstance(x, ast.Name)}
        return writes, reads

    def _swap(self, body):
        i = 0
        out = list(body)
        while i + 1 < len(out):
            a, b = self._simple(out[i]), self._simple(out[i + 1])
            if a and b and not (a[0] & b[0]) and not (a[0] & b[1]) and not (b[0] & a[1]):
                out[i], out[i + 1] = out[i + 1], out[i]
                i += 2
            else:
                i += 1
        return out

    def generic_visit(self, node):
        super().generic_visit(node)
        for field in ('body', 'orelse', 'finalbody'):
            b = getattr(node, field, None)
            if isinstance(b, list) and b and all(isinstance(x, ast.stmt) for x in b):
                setattr(node, field, self._swap(b))
        return node


class ElifNest(ast.NodeTransformer):
    """`elif` chains become explicitly nested `else: if` blocks followed by a no-op (so unparse cannot re-fold them)"""

    def visit_If(self, n):
        self.generic_visit(n)
        if len(n.orelse) == 1 and isinstance(n.orelse[0], ast.If):
            n.orelse = [n.orelse[0], ast.Pass()]
        return n


def transform(src, variant):
    tree = ast.parse(src)
    if variant == 'swapstmts':
        tree = SwapStmts().visit(tree)
    if variant == 'elifnest':
        tree = ElifNest().visit(tree)
    if variant == 'augassign':
        tree = AugExpand().visit(tree)
    if variant == 'cmpswap':
        tree = CmpSwap().visit(tree)
    if variant == 'ifinvert':
        tree = IfInvert().visit(tree)
    if variant in ('rename', 'docstrip'):
        tree = LocalRenamer().visit(tree)
    if variant == 'docstrip':
        tree = DocStripper().visit(tree)
    ast.fix_missing_locations(tree)
    out = ast.unparse(tree)
    compile(out, '<x>', 'exec')
    return out


def main():
    variants = sys.argv[1:] or ['unparse', 'rename', 'docstrip', 'augassign', 'cmpswap', 'ifinvert', 'swapstmts', 'elifnest']
    rc_all = 0
    for v in variants:
        tmp = tempfile.mkdtemp(prefix='sa_refac_')
        try:
            for dp, dn, fn in os.walk('/repo/falcon'):
                dn[:] = [d for d in dn if d != '__pycache__']
                for f in fn:
                    if not (f.endswith('.py') or f.endswith('.pyx')):
                        continue
                    src = os.path.join(dp, f)
                    dst = os.path.join(tmp, os.path.relpath(src, '/repo'))
                    os.makedirs(os.path.dirname(dst), exist_ok=True)
                    if f.endswith('.py'):
                        with open(src, encoding='utf-8') as fh:
                            text = fh.read()
                        try:
                            text = transform(text, v)
                        except Exception as e:
                            print('  (kept %s verbatim: %s)' % (src, e))
                        with open(dst, 'w', encoding='utf-8') as fh:
                            fh.write(text)
                    else:
                        shutil.copy(src, dst)
            ev = os.path.join(tmp, 'ev')
            r = subprocess.run([os.path.join(HERE, 'check'), 'all', '--root', tmp, '--evidence-dir', ev], capture_output=True, text=True)
            lines = [ln for ln in r.stdout.splitlines() if ln.startswith(('VIOLATION', '  rule', 'ANALYSIS-ERROR'))]
            # a known finding whose construct text mentions a renamed local has a new
            # key by design (DESIGN A.7); it is the same genuine finding, not a false alarm
            import json as _json
            known = {(k['property'], k['rule'], k['key'].split(' :: ')[0]) for k in _json.load(open(os.path.join(HERE, 'known_findings.json')))['findings'] if k['status'] == 'known'}
            viol = []
            for i, ln in enumerate(lines):
                if not ln.startswith('VIOLATION'):
                    continue
                prop = ln.split('property=')[1].split()[0]
                nxt = lines[i + 1] if i + 1 < len(lines) else ''
                rule = nxt.split()[1] if nxt.strip().startswith('rule') else '?'
                fn = nxt.split(' in ')[1].split(':')[0] if ' in ' in nxt else '?'
                if (prop, rule, fn) in known:
                    continue
                viol.append(ln)
            errs = [ln for ln in lines if ln.startswith('ANALYSIS-ERROR')]
            print('variant %-9s exit=%d  false alarms=%d  analysis errors=%d' % (v, r.returncode, len(viol), len(errs)))
            for ln in lines[:60]:
                print('   ' + ln[:230])
            if viol:
                rc_all = 1
        finally:
            shutil.rmtree(tmp, ignore_errors=True)
    return rc_all


if __name__ == '__main__':
    sys.exit(main())
