#!/usr/bin/env python3
"""Run every check against every seeded change in /verif/seeded/<id>/patch.diff.

Each patch is applied to a scratch copy of /repo/falcon (tempfile, removed
afterwards); the checks run with --root <scratch>.  A change counts as caught
when the property it targets reports a violation that the unchanged tree does
not have.  Usage: tools/run_seeded.py [--dir /verif/seeded] [--only id,...]
"""

import argparse
import contextlib
import io
import json
import os
import shutil
import subprocess
import sys
import tempfile
from concurrent.futures import ProcessPoolExecutor

HERE = os.path.dirname(os.path.dirname(os.path.abspath(__file__)))
sys.path.insert(0, HERE)
sys.setrecursionlimit(10000)

from sa.selftest import driver  # noqa: E402


def one(args):
    sid, sdir, root, props, base = args[:5]
    keep = len(args) > 5 and args[5]
    from sa.cli import run_property
    from sa.model import Project, AnalysisError

    meta = {}
    mp = os.path.join(sdir, 'meta.json')
    if os.path.isfile(mp):
        meta = json.load(open(mp))
    target = meta.get('property', '?')
    tmp = tempfile.mkdtemp(prefix='sa_seed_')
    res = {'id': sid, 'property': target, 'fired': {}, 'errors': {}, 'status': None}
    try:
        driver._copy_tree(root, tmp)
        r = subprocess.run(['patch', '-p1', '-s', '-d', tmp, '-i', os.path.join(sdir, 'patch.diff')], capture_output=True, text=True)
        if r.returncode != 0:
            res['status'] = 'patch-failed: ' + (r.stdout + r.stderr)[:200]
            return res
        try:
            project = Project(tmp)
        except AnalysisError as e:
            res['status'] = 'parse-error: %s' % e
            return res
        evdir = os.path.join(tmp, 'evidence')
        for p in props:
            buf = io.StringIO()
            with contextlib.redirect_stdout(buf):
                rc = run_property(p, 'quick', tmp, evdir, project)
            newk = driver._violation_keys(evdir, p) - base.get(p, set())
            if newk:
                res['fired'][p] = sorted('%s %s' % (r_, k) for (r_, k) in newk)[:5]
            if rc == 2:
                res['errors'][p] = [ln for ln in buf.getvalue().splitlines() if ln.startswith('ANALYSIS-ERROR')][:2]
        if keep:
            # behaviour-preserving change: any report is a false alarm, exit 2 is fail-closed noise
            if res['fired']:
                res['status'] = 'FALSE-ALARM(%s)' % ','.join(sorted(res['fired']))
            elif res['errors']:
                res['status'] = 'exit2(%s)' % ','.join(sorted(res['errors']))
            else:
                res['status'] = 'silent'
        elif target in res['fired']:
            res['status'] = 'caught'
        elif res['fired']:
            res['status'] = 'caught-by-other(%s)' % ','.join(res['fired'])
        elif target in res['errors']:
            res['status'] = 'analysis-error'
        else:
            res['status'] = 'MISSED'
    finally:
        shutil.rmtree(tmp, ignore_errors=True)
    return res


def main():
    ap = argparse.ArgumentParser()
    ap.add_argument('--dir', default=os.path.join(HERE, 'seeded'))
    ap.add_argument('--root', default='/repo')
    ap.add_argument('--only', default=None)
    ap.add_argument('--json', default=None)
    ap.add_argument('--keep', action='store_true', help='the changes are behaviour-preserving: expect silence from every property')
    a = ap.parse_args()
    a.dir = os.path.abspath(a.dir)
    ids = sorted(d for d in os.listdir(a.dir) if os.path.isfile(os.path.join(a.dir, d, 'patch.diff')))
    if a.only:
        keys = a.only.split(',')
        ids = [i for i in ids if any(k in i for k in keys)]
    props = driver.implemented_props()
    base = driver.baseline_keys(a.root, props)
    work = [(i, os.path.join(a.dir, i), a.root, props, base, a.keep) for i in ids]
    with ProcessPoolExecutor(max_workers=16) as ex:
        results = list(ex.map(one, work))
    missed = 0
    for r in results:
        if r['status'] != 'caught':
            missed += 1
        print('%-28s %-4s %-28s %s' % (r['id'], r['property'], r['status'], '; '.join('%s: %s' % (p, v[0][:110]) for p, v in r['fired'].items())))
        for p, e in r['errors'].items():
            print('      %s %s' % (p, e[:1]))
    if a.keep:
        fa = sum(1 for r in results if r['status'].startswith('FALSE-ALARM'))
        e2 = sum(1 for r in results if r['status'].startswith('exit2'))
        ok = sum(1 for r in results if r['status'] == 'silent')
        broken = len(results) - fa - e2 - ok   # patch-failed / parse-error: NOT evaluated, never counted as silent
        print('preserving: %d changes, %d silent, %d exit 2 (fail-closed), %d FALSE ALARMS, %d not evaluated (patch/parse failure)' % (len(results), ok, e2, fa, broken))
        if broken:
            sys.exit(3)
    else:
        print('seeded: %d changes, %d caught by their property, %d not' % (len(results), len(results) - missed, missed))
    if a.json:
        json.dump(results, open(a.json, 'w'), indent=1)


if __name__ == '__main__':
    main()
